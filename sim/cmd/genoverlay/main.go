// genoverlay writes, into -out, copies of every non-test Go file of the
// repository's silence and nflog packages that imports "os" or "math/rand",
// with those imports aliased to the simulated disk and the order-insensitive
// random source, plus the -overlay JSON that makes `go test` use them (and that
// supplies the ui/app/dist embed directory, which is not built in this sandbox).
package main

import (
	"bytes"
	"encoding/json"
	"flag"
	"fmt"
	"go/ast"
	"go/format"
	"go/parser"
	"go/token"
	"os"
	"path/filepath"
	"runtime"
	"sort"
	"strconv"
	"strings"
)

func main() {
	repo := flag.String("repo", "/repo", "repository root")
	out := flag.String("out", "", "output directory")
	flag.Parse()
	if *out == "" {
		fmt.Fprintln(os.Stderr, "need -out")
		os.Exit(2)
	}
	must(os.MkdirAll(*out, 0o755))
	repl := map[string]string{}
	idx := filepath.Join(*out, "index.html")
	must(os.WriteFile(idx, []byte("<html></html>\n"), 0o644))
	if _, err := os.Stat(filepath.Join(*repo, "ui/app/dist")); err != nil {
		repl[filepath.Join(*repo, "ui/app/dist/index.html")] = idx
	}
	alias := map[string][2]string{
		"os":           {"os", "verif/sim/simfs"},
		"math/rand":    {"rand", "verif/sim/simrand"},
		"math/rand/v2": {"rand", "verif/sim/simrand"},
	}
	printed := map[string]string{} // source path -> instrumented text
	var sites []string
	for _, pkg := range []string{"silence", "nflog", "dispatch", "store", "inhibit", "provider/mem", "api/v2"} {
		ents, err := os.ReadDir(filepath.Join(*repo, pkg))
		must(err)
		for _, e := range ents {
			n := e.Name()
			if e.IsDir() || !strings.HasSuffix(n, ".go") || strings.HasSuffix(n, "_test.go") {
				continue
			}
			src := filepath.Join(*repo, pkg, n)
			fset := token.NewFileSet()
			f, err := parser.ParseFile(fset, src, nil, parser.ParseComments)
			must(err)
			changed := false
			if pkg == "silence" || pkg == "nflog" {
				for _, im := range f.Imports {
					p, _ := strconv.Unquote(im.Path.Value)
					a, ok := alias[p]
					if !ok {
						continue
					}
					name := a[0]
					if im.Name != nil {
						name = im.Name.Name
					}
					im.Name = ast.NewIdent(name)
					im.Path.Value = strconv.Quote(a[1])
					changed = true
				}
			}
			if names := instrumentLocks(f, filepath.Base(pkg), pkg == "dispatch"); len(names) > 0 {
				sites = append(sites, names...)
				changed = true
			}
			if !changed {
				continue
			}
			var buf bytes.Buffer
			must(format.Node(&buf, fset, f))
			printed[src] = buf.String()
		}
	}
	// store.Alerts.List returns the alerts in Go map order, which the dispatcher
	// uses when it (re)starts; give it a seeded, reproducible order instead (any
	// order is a legal one). Done textually; if the function no longer looks as
	// expected it is left alone.
	storeSrc := filepath.Join(*repo, "store/store.go")
	if text, ok := printed[storeSrc]; ok || true {
		if !ok {
			if b, err := os.ReadFile(storeSrc); err == nil {
				text = string(b)
			}
		}
		sig := "func (a *Alerts) List() []*types.Alert {"
		if i := strings.Index(text, sig); i >= 0 && !strings.Contains(text, "\t\"sort\"\n") {
			rest := text[i:]
			if j := strings.Index(rest, "\n\treturn alerts\n}"); j >= 0 && !strings.Contains(rest[:j], "\nfunc ") {
				patched := text[:i] + rest[:j] + "\n\tsort.Slice(alerts, func(i, j int) bool {\n\t\treturn simrand.Key(uint64(alerts[i].Fingerprint())) < simrand.Key(uint64(alerts[j].Fingerprint()))\n\t})" + rest[j:]
				patched = strings.Replace(patched, "import (\n", "import (\n\t\"sort\"\n\tsimrand \"verif/sim/simrand\"\n", 1)
				if _, err := parser.ParseFile(token.NewFileSet(), "store.go", patched, 0); err == nil {
					printed[storeSrc] = patched
				}
			}
		}
	}
	for src, text := range printed {
		rel, _ := filepath.Rel(*repo, src)
		dst := filepath.Join(*out, strings.ReplaceAll(rel, "/", "_"))
		must(os.WriteFile(dst, []byte(text), 0o644))
		repl[src] = dst
	}
	sort.Strings(sites)
	sb, _ := json.MarshalIndent(sites, "", " ")
	must(os.WriteFile(filepath.Join(*out, "autosites.json"), sb, 0o644))
	runtimeOverlay(*out, repl)
	b, _ := json.MarshalIndent(map[string]any{"Replace": repl}, "", " ")
	must(os.WriteFile(filepath.Join(*out, "overlay.json"), b, 0o644))
}

// instrumentLocks inserts, in every function of the file,
//
//	verifhook.Yield("auto.lock", "<pkg>.<Type>.<func>")   before  x.Lock() / x.RLock()
//	verifhook.Yield("auto.locked")                         after   x.Lock() / x.RLock()
//	verifhook.Yield("auto.unlocked")                       after   x.Unlock() / x.RUnlock() (also deferred ones)
//
// so that the simulator can suspend a goroutine right before it enters a
// critical section (a hold rule names the function and the how-manieth such
// acquisition of the run), and knows, per goroutine, how many instrumented locks
// it holds: it only ever suspends a goroutine that holds none, because a
// goroutine blocked on a sync.Mutex is not durably blocked and virtual time
// would stand still. Returns the names of the functions that acquire a lock.
func instrumentLocks(f *ast.File, pkg string, lockFree bool) []string {
	var names []string
	yield := func(args ...string) ast.Stmt {
		var as []ast.Expr
		for _, a := range args {
			as = append(as, &ast.BasicLit{Kind: token.STRING, Value: strconv.Quote(a)})
		}
		return &ast.ExprStmt{X: &ast.CallExpr{Fun: &ast.SelectorExpr{X: ast.NewIdent("verifhook"), Sel: ast.NewIdent("Yield")}, Args: as}}
	}
	lockKind := func(call *ast.CallExpr) string {
		if call == nil || len(call.Args) != 0 {
			return ""
		}
		sel, ok := call.Fun.(*ast.SelectorExpr)
		if !ok {
			return ""
		}
		switch sel.Sel.Name {
		case "Lock", "RLock":
			return "lock"
		case "Unlock", "RUnlock":
			return "unlock"
		}
		return ""
	}
	total := 0
	var rewrite func(list []ast.Stmt, fname string) []ast.Stmt
	rewrite = func(list []ast.Stmt, fname string) []ast.Stmt {
		var out []ast.Stmt
		for _, st := range list {
			switch x := st.(type) {
			case *ast.ExprStmt:
				if call, ok := x.X.(*ast.CallExpr); ok {
					switch lockKind(call) {
					case "lock":
						out = append(out, yield("auto.lock", fname), st, yield("auto.locked"))
						total++
						if len(names) == 0 || names[len(names)-1] != fname {
							names = append(names, fname)
						}
						continue
					case "unlock":
						out = append(out, st, yield("auto.unlocked"))
						total++
						continue
					}
				}
				if lockFree && hasSyncOp(st) {
					out = append(out, yield("auto.lock", fname))
					total++
					if len(names) == 0 || names[len(names)-1] != fname {
						names = append(names, fname)
					}
				}
			case *ast.AssignStmt, *ast.IfStmt:
				if lockFree && hasSyncOp(st) {
					out = append(out, yield("auto.lock", fname))
					total++
					if len(names) == 0 || names[len(names)-1] != fname {
						names = append(names, fname)
					}
				}
			case *ast.DeferStmt:
				if lockKind(x.Call) == "unlock" {
					x.Call = &ast.CallExpr{Fun: &ast.FuncLit{Type: &ast.FuncType{Params: &ast.FieldList{}}, Body: &ast.BlockStmt{List: []ast.Stmt{&ast.ExprStmt{X: x.Call}}}}} // the yield is added when this body is visited
					total++
				}
			}
			out = append(out, st)
		}
		return out
	}
	for _, d := range f.Decls {
		fd, ok := d.(*ast.FuncDecl)
		if !ok || fd.Body == nil {
			continue
		}
		fname := pkg + "."
		if fd.Recv != nil && len(fd.Recv.List) == 1 {
			t := fd.Recv.List[0].Type
			if st, ok := t.(*ast.StarExpr); ok {
				t = st.X
			}
			if ix, ok := t.(*ast.IndexExpr); ok {
				t = ix.X
			}
			if id, ok := t.(*ast.Ident); ok {
				fname += id.Name + "."
			}
		}
		fname += fd.Name.Name
		ast.Inspect(fd.Body, func(n ast.Node) bool {
			switch x := n.(type) {
			case *ast.BlockStmt:
				x.List = rewrite(x.List, fname)
			case *ast.CaseClause:
				x.Body = rewrite(x.Body, fname)
			case *ast.CommClause:
				x.Body = rewrite(x.Body, fname)
			}
			return true
		})
	}
	if total == 0 {
		return nil
	}
	has := false
	for _, im := range f.Imports {
		if im.Path.Value == strconv.Quote("github.com/prometheus/alertmanager/pkg/verifhook") {
			has = true
		}
	}
	if !has {
		spec := &ast.ImportSpec{Path: &ast.BasicLit{Kind: token.STRING, Value: strconv.Quote("github.com/prometheus/alertmanager/pkg/verifhook")}}
		for _, d := range f.Decls {
			if gd, ok := d.(*ast.GenDecl); ok && gd.Tok == token.IMPORT {
				gd.Specs = append(gd.Specs, spec)
				if !gd.Lparen.IsValid() {
					gd.Lparen = gd.Pos()
					gd.Rparen = gd.End()
				}
				f.Imports = append(f.Imports, spec)
				has = true
				break
			}
		}
		if !has {
			f.Decls = append([]ast.Decl{&ast.GenDecl{Tok: token.IMPORT, Specs: []ast.Spec{spec}}}, f.Decls...)
		}
	}
	return names
}

// hasSyncOp reports whether the statement itself (its expressions, its if-header;
// not the blocks nested in it) calls a sync.Map / atomic operation that other
// goroutines can observe: lock-free code (the dispatcher's group map) has these
// instead of critical sections, and the simulator may suspend a goroutine right
// before one.
func hasSyncOp(st ast.Stmt) bool {
	found := false
	check := func(n ast.Node) {
		if n == nil {
			return
		}
		ast.Inspect(n, func(x ast.Node) bool {
			switch c := x.(type) {
			case *ast.BlockStmt, *ast.FuncLit:
				return false
			case *ast.CallExpr:
				if sel, ok := c.Fun.(*ast.SelectorExpr); ok {
					switch sel.Sel.Name {
					case "LoadOrStore", "LoadAndDelete", "CompareAndSwap", "CompareAndDelete", "Swap":
						found = true
					case "Load", "Store", "Delete":
						// sync.Map forms only: Load(key), Store(key, v), Delete(key)
						if (sel.Sel.Name == "Store" && len(c.Args) == 2) || (sel.Sel.Name != "Store" && len(c.Args) == 1) {
							found = true
						}
					}
				}
			}
			return true
		})
	}
	switch x := st.(type) {
	case *ast.ExprStmt:
		check(x.X)
	case *ast.AssignStmt:
		for _, e := range x.Rhs {
			check(e)
		}
	case *ast.IfStmt:
		check(x.Init)
		check(x.Cond)
	}
	return found
}

// runtimeOverlay makes the three places where the Go runtime draws an unseeded
// random number to decide something a simulated run can observe draw from a
// per-bubble sequence seeded by the simulator instead (runtime.verifSeed, set
// before each run; 0 = the stock behaviour):
//   - the firing order of synctest timers due at the same instant (the stock
//     runtime shuffles them on purpose),
//   - the polling order of select when several cases are ready,
//   - (not a draw, same purpose) sysmon's wall-clock driven retaking of Ps,
//   - the hash seed and iteration start of maps made / ranged over inside a bubble
//     (and the process-wide hash key, which is boot-time random in the stock runtime).
//
// The patches are textual and each must apply exactly once, or the build stops.
func runtimeOverlay(out string, repl map[string]string) {
	root := runtime.GOROOT()
	patch := func(rel string, edits [][2]string, tail string) {
		src := filepath.Join(root, "src", rel)
		b, err := os.ReadFile(src)
		must(err)
		text := string(b)
		for _, e := range edits {
			if strings.Count(text, e[0]) != 1 {
				must(fmt.Errorf("runtime overlay: %s: expected exactly one %q (Go %s)", rel, e[0], runtime.Version()))
			}
			text = strings.Replace(text, e[0], e[1], 1)
		}
		text += tail
		dst := filepath.Join(out, "goroot_"+strings.ReplaceAll(rel, "/", "_"))
		must(os.WriteFile(dst, []byte(text), 0o644))
		repl[src] = dst
	}
	patch("runtime/time.go", [][2]string{
		{"\t\t\tt.rand = cheaprand()\n", "\t\t\tt.rand = verifTimerRand(ts, t)\n"},
		{"type timers struct {\n", "type timers struct {\n\tverifSeq uint32 // verif: arming counter (first-armed-first among equals)\n\tverifSelNow int64\n\tverifSelK uint32\n"},
	}, `
// ---- verif: simulator-owned tie-breaking (see /verif/sim/cmd/genoverlay) ----

//go:linkname verifSeed
var verifSeed uint64

// verifGoidFn returns the id of the calling goroutine (the simulator keys
// per-goroutine bookkeeping on it; parsing runtime.Stack output is too slow for
// a hook that runs at every lock operation).
//
//go:linkname verifGoidFn
var verifGoidFn = func() uint64 { return getg().goid }

func verifMix(x uint64) uint64 {
	x += 0x9e3779b97f4a7c15
	x = (x ^ (x >> 30)) * 0xbf58476d1ce4e5b9
	x = (x ^ (x >> 27)) * 0x94d049bb133111eb
	return x ^ (x >> 31)
}

// None of the three draws below comes from a running sequence shared by the
// whole bubble: one extra draw somewhere (a lazily initialised package, a
// sync.Pool emptied by a collection) would shift every later one. Each is a
// function of the seed and of local facts only.

// verifTimerRand orders timers due at the same instant: by a pseudo-random
// function of (seed, instant of arming, kind of timer), and first-armed-first
// among timers armed at the same instant for the same kind. Called with ts (the
// bubble's timer heap) locked.
func verifTimerRand(ts *timers, t *timer) uint32 {
	gp := getg()
	if verifSeed == 0 || gp == nil || gp.bubble == nil {
		return cheaprand()
	}
	ts.verifSeq++
	h := verifMix(verifSeed ^ uint64(gp.bubble.now)*0x9e3779b97f4a7c15 ^ uint64(abi.FuncPCABIInternal(t.f))<<17)
	return uint32(h>>32)&0xffff0000 | ts.verifSeq&0xffff
}

// verifSelectRand: the polling order of a select is a function of the seed, the
// virtual instant, the number of selects the bubble has executed since the clock
// last moved, and the position in the shuffle. (The count is needed: net/http
// spins on a select with two permanently ready cases until the other one is
// picked; an order that is constant within an instant would never end.)
func verifSelectRand(i, n uint32) uint32 {
	gp := getg()
	if verifSeed == 0 || gp == nil || gp.bubble == nil {
		return cheaprandn(n)
	}
	ts := &gp.bubble.timers
	if i == 0 || ts.verifSelNow != gp.bubble.now {
		if ts.verifSelNow != gp.bubble.now {
			ts.verifSelNow = gp.bubble.now
			ts.verifSelK = 0
		}
		ts.verifSelK++
	}
	return uint32((verifMix(verifSeed^0x5e1ec7^uint64(gp.bubble.now)*0xbf58476d1ce4e5b9^uint64(i)<<56^uint64(ts.verifSelK)<<24) >> 32) * uint64(n) >> 32)
}

// verifMapRand: hash seeds and iteration starts of maps used inside a bubble are
// a function of the seed and the virtual instant.
func verifMapRand() uint64 {
	gp := getg()
	if verifSeed == 0 || gp == nil || gp.bubble == nil {
		return rand()
	}
	return verifMix(verifSeed ^ 0x3a9 ^ uint64(gp.bubble.now)*0x94d049bb133111eb)
}
`)
	// the string/memory hash is keyed with boot-time random data: two processes
	// place the same keys differently and so iterate the same map differently
	patch("runtime/alg.go", [][2]string{
		{"\t\thashkey[i] = uintptr(bootstrapRand())\n", "\t\thashkey[i] = uintptr(verifMix(uint64(i) + 11))\n"},
		{"\t\tkey[i] = bootstrapRand()\n", "\t\tkey[i] = verifMix(uint64(i) + 101)\n"},
	}, "")
	// sysmon neither takes the P away from a goroutine that sits in a (short, real)
	// system call nor asks a long-running goroutine to yield while a simulated run
	// is in progress: both reorder goroutines by wall-clock time
	patch("runtime/proc.go", [][2]string{
		{"func retake(now int64) uint32 {\n\tn := 0\n", "func retake(now int64) uint32 {\n\tif verifSeed != 0 {\n\t\treturn 0\n\t}\n\tn := 0\n"},
	}, "")
	patch("runtime/select.go", [][2]string{
		{"\t\tj := cheaprandn(uint32(norder + 1))\n", "\t\tj := verifSelectRand(uint32(norder), uint32(norder + 1))\n"},
	}, "")
	patch("runtime/rand.go", [][2]string{
		{"func maps_rand() uint64 {\n\treturn rand()\n}", "func maps_rand() uint64 {\n\treturn verifMapRand()\n}"},
	}, "")
}

func must(err error) {
	if err != nil {
		fmt.Fprintln(os.Stderr, "genoverlay:", err)
		os.Exit(2)
	}
}
