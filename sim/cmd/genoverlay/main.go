// genoverlay writes, into -out, copies of every non-test Go file of the
// repository's silence and nflog packages that imports "os" or "math/rand",
// with those imports aliased to the simulated disk and the order-insensitive
// random source, plus the -overlay JSON that makes `go test` use them (and that
// supplies the ui/app/dist embed directory, which is not built in this sandbox).
package main

import (
	"bytes"
	"encoding/json"
	"flag"
	"fmt"
	"go/ast"
	"go/format"
	"go/parser"
	"go/token"
	"os"
	"path/filepath"
	"strconv"
	"strings"
)

func main() {
	repo := flag.String("repo", "/repo", "repository root")
	out := flag.String("out", "", "output directory")
	flag.Parse()
	if *out == "" {
		fmt.Fprintln(os.Stderr, "need -out")
		os.Exit(2)
	}
	must(os.MkdirAll(*out, 0o755))
	repl := map[string]string{}
	idx := filepath.Join(*out, "index.html")
	must(os.WriteFile(idx, []byte("<html></html>\n"), 0o644))
	if _, err := os.Stat(filepath.Join(*repo, "ui/app/dist")); err != nil {
		repl[filepath.Join(*repo, "ui/app/dist/index.html")] = idx
	}
	alias := map[string][2]string{
		"os":           {"os", "verif/sim/simfs"},
		"math/rand":    {"rand", "verif/sim/simrand"},
		"math/rand/v2": {"rand", "verif/sim/simrand"},
	}
	for _, pkg := range []string{"silence", "nflog"} {
		ents, err := os.ReadDir(filepath.Join(*repo, pkg))
		must(err)
		for _, e := range ents {
			n := e.Name()
			if e.IsDir() || !strings.HasSuffix(n, ".go") || strings.HasSuffix(n, "_test.go") {
				continue
			}
			src := filepath.Join(*repo, pkg, n)
			fset := token.NewFileSet()
			f, err := parser.ParseFile(fset, src, nil, parser.ParseComments)
			must(err)
			changed := false
			for _, im := range f.Imports {
				p, _ := strconv.Unquote(im.Path.Value)
				a, ok := alias[p]
				if !ok {
					continue
				}
				name := a[0]
				if im.Name != nil {
					name = im.Name.Name
				}
				im.Name = ast.NewIdent(name)
				im.Path.Value = strconv.Quote(a[1])
				changed = true
			}
			if !changed {
				continue
			}
			var buf bytes.Buffer
			must(format.Node(&buf, fset, f))
			dst := filepath.Join(*out, pkg+"_"+n)
			must(os.WriteFile(dst, buf.Bytes(), 0o644))
			repl[src] = dst
		}
	}
	// store.Alerts.List returns the alerts in Go map order, which the dispatcher
	// uses when it (re)starts; give it a seeded, reproducible order instead (any
	// order is a legal one). Done textually on the current file; if the function
	// no longer looks as expected the file is left alone.
	if src, err := os.ReadFile(filepath.Join(*repo, "store/store.go")); err == nil {
		text := string(src)
		sig := "func (a *Alerts) List() []*types.Alert {"
		if i := strings.Index(text, sig); i >= 0 {
			rest := text[i:]
			if j := strings.Index(rest, "\n\treturn alerts\n}"); j >= 0 && !strings.Contains(rest[:j], "\nfunc ") {
				patched := text[:i] + rest[:j] + "\n\tsort.Slice(alerts, func(i, j int) bool {\n\t\treturn simrand.Key(uint64(alerts[i].Fingerprint())) < simrand.Key(uint64(alerts[j].Fingerprint()))\n\t})" + rest[j:]
				patched = strings.Replace(patched, "import (\n", "import (\n\t\"sort\"\n\tsimrand \"verif/sim/simrand\"\n", 1)
				if fset := token.NewFileSet(); true {
					if f, err := parser.ParseFile(fset, "store.go", patched, parser.ParseComments); err == nil {
						// drop a duplicate "sort" import if the file already had one
						seen := map[string]bool{}
						ok := true
						for _, im := range f.Imports {
							if seen[im.Path.Value] {
								ok = false
							}
							seen[im.Path.Value] = true
						}
						if ok {
							dst := filepath.Join(*out, "store_store.go")
							must(os.WriteFile(dst, []byte(patched), 0o644))
							repl[filepath.Join(*repo, "store/store.go")] = dst
						}
					}
				}
			}
		}
	}
	b, _ := json.MarshalIndent(map[string]any{"Replace": repl}, "", " ")
	must(os.WriteFile(filepath.Join(*out, "overlay.json"), b, 0o644))
}

func must(err error) {
	if err != nil {
		fmt.Fprintln(os.Stderr, "genoverlay:", err)
		os.Exit(2)
	}
}
