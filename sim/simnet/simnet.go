// Package simnet is the simulated gossip network: a non-blocking in-memory
// memberlist.Transport whose per-packet and per-stream fate (deliver, drop,
// duplicate, delay, cut) is a pure function of the run seed and the packet's
// content and send instant, never of goroutine arrival order.
package simnet

import (
	"fmt"
	"hash/fnv"
	"net"
	"strconv"
	"sync"
	"time"

	"github.com/hashicorp/memberlist"
)

// Partition separates side A from everyone else during [From,To).
type Partition struct {
	From, To time.Duration
	A        map[string]bool
	B        map[string]bool // when set: only the links between A and B are cut
	OneWay   bool            // only A -> others is cut
}

// Config is the fault schedule.
type Config struct {
	DropPct     int
	DupPct      int
	MinDelay    time.Duration
	Jitter      time.Duration
	Parts       []Partition
	FaultsUntil time.Duration // 0 = always
	RefusePct   int           // stream dial refusals
}

// Stats counts what actually happened.
type Stats struct {
	Packets, Dropped, Duplicated, Delayed, PartitionDrops int
	Streams, StreamsRefused, DeadDrops                    int
}

type Net struct {
	mu    sync.Mutex
	seed  uint64
	start time.Time
	cfg   Config
	nodes map[string]*T // by addr
	names map[string]string
	alive map[string]bool // by name
	st    Stats
	ord   map[string]int
	// Trace, when set, receives one line per packet/stream decision.
	Trace func(string)
}

func New(seed uint64, start time.Time) *Net {
	return &Net{seed: seed, start: start, nodes: map[string]*T{}, names: map[string]string{}, alive: map[string]bool{}, ord: map[string]int{},
		cfg: Config{MinDelay: 2*time.Millisecond + 11}}
}

func (n *Net) SetConfig(c Config) {
	n.mu.Lock()
	if c.MinDelay <= 0 {
		c.MinDelay = 2*time.Millisecond + 11
	}
	n.cfg = c
	n.mu.Unlock()
}

func (n *Net) Stats() Stats { n.mu.Lock(); defer n.mu.Unlock(); return n.st }

func (n *Net) SetAlive(name string, v bool) {
	n.mu.Lock()
	n.alive[name] = v
	n.mu.Unlock()
}

func mix(x uint64) uint64 {
	x += 0x9e3779b97f4a7c15
	x = (x ^ (x >> 30)) * 0xbf58476d1ce4e5b9
	x = (x ^ (x >> 27)) * 0x94d049bb133111eb
	return x ^ (x >> 31)
}

// cut reports whether from->to is partitioned at offset t. Caller holds mu.
func (n *Net) cut(from, to string, t time.Duration) bool {
	for _, p := range n.cfg.Parts {
		if t < p.From || t >= p.To {
			continue
		}
		fa, ta := p.A[from], p.A[to]
		if len(p.B) > 0 {
			// a pair cut: between a member of A and a member of B only
			if (fa && p.B[to]) || (!p.OneWay && ta && p.B[from]) {
				return true
			}
			continue
		}
		if fa != ta {
			if p.OneWay && !fa {
				continue
			}
			return true
		}
	}
	return false
}

type addr string

func (a addr) Network() string { return "sim" }
func (a addr) String() string  { return string(a) }

// T is one node's transport.
type T struct {
	n        *Net
	name     string
	addr     string
	mu       sync.Mutex
	q        []*memberlist.Packet
	wake     chan struct{}
	packetCh chan *memberlist.Packet
	streamCh chan net.Conn
	done     chan struct{}
	once     sync.Once
}

func (n *Net) NewTransport(name, a string) *T {
	t := &T{n: n, name: name, addr: a, wake: make(chan struct{}, 1), packetCh: make(chan *memberlist.Packet),
		streamCh: make(chan net.Conn, 64), done: make(chan struct{})}
	n.mu.Lock()
	n.nodes[a] = t
	n.names[a] = name
	n.alive[name] = true
	n.mu.Unlock()
	go t.pump()
	return t
}

func (t *T) pump() {
	for {
		t.mu.Lock()
		var p *memberlist.Packet
		if len(t.q) > 0 {
			p = t.q[0]
			t.q = t.q[1:]
		}
		t.mu.Unlock()
		if p == nil {
			select {
			case <-t.wake:
				continue
			case <-t.done:
				return
			}
		}
		select {
		case t.packetCh <- p:
		case <-t.done:
			return
		}
	}
}

func (t *T) enqueue(p *memberlist.Packet) {
	t.mu.Lock()
	t.q = append(t.q, p)
	t.mu.Unlock()
	select {
	case t.wake <- struct{}{}:
	default:
	}
}

func (t *T) FinalAdvertiseAddr(string, int) (net.IP, int, error) {
	h, p, _ := net.SplitHostPort(t.addr)
	port, _ := strconv.Atoi(p)
	return net.ParseIP(h), port, nil
}

func (t *T) WriteTo(b []byte, a string) (time.Time, error) {
	n := t.n
	now := time.Now()
	off := now.Sub(n.start)
	h := fnv.New64a()
	h.Write(b)
	content := h.Sum64()
	n.mu.Lock()
	dst := n.nodes[a]
	dstName := n.names[a]
	n.st.Packets++
	if !n.alive[t.name] || dst == nil || !n.alive[dstName] {
		n.st.DeadDrops++
		n.mu.Unlock()
		return now, nil
	}
	if n.cut(t.name, dstName, off) {
		n.st.PartitionDrops++
		n.mu.Unlock()
		return now, nil
	}
	key := fmt.Sprintf("%s>%s@%d#%x", t.name, dstName, int64(off), content)
	k := n.ord[key]
	n.ord[key] = k + 1
	if len(n.ord) > 4096 {
		clear(n.ord)
	}
	hh := fnv.New64a()
	hh.Write([]byte(key))
	x := mix(hh.Sum64() ^ mix(n.seed) ^ uint64(k))
	cfg := n.cfg
	faults := cfg.FaultsUntil == 0 || off < cfg.FaultsUntil
	delay := cfg.MinDelay + time.Duration(x%97)
	drop, dup := false, false
	if faults {
		if int(x>>8%100) < cfg.DropPct {
			drop = true
			n.st.Dropped++
		} else {
			if int(x>>20%100) < cfg.DupPct {
				dup = true
				n.st.Duplicated++
			}
			if cfg.Jitter > 0 {
				delay += time.Duration(x >> 32 % uint64(cfg.Jitter))
				n.st.Delayed++
			}
		}
	}
	tr := n.Trace
	n.mu.Unlock()
	if tr != nil {
		tr(fmt.Sprintf("%d pkt %s len=%d type=%d drop=%v dup=%v delay=%d", int64(off), key, len(b), b[0], drop, dup, int64(delay)))
	}
	if drop {
		return now, nil
	}
	buf := append([]byte(nil), b...)
	from := addr(t.addr)
	deliver := func() {
		n.mu.Lock()
		ok := n.alive[dstName] && n.nodes[a] == dst
		n.mu.Unlock()
		if ok {
			dst.enqueue(&memberlist.Packet{Buf: buf, From: from, Timestamp: time.Now()})
		}
	}
	time.AfterFunc(delay, deliver)
	if dup {
		time.AfterFunc(2*delay+7, deliver)
	}
	return now, nil
}

func (t *T) PacketCh() <-chan *memberlist.Packet { return t.packetCh }

func (t *T) DialTimeout(a string, timeout time.Duration) (net.Conn, error) {
	n := t.n
	off := time.Since(n.start)
	n.mu.Lock()
	dst := n.nodes[a]
	dstName := n.names[a]
	n.st.Streams++
	bad := !n.alive[t.name] || dst == nil || !n.alive[dstName] || n.cut(t.name, dstName, off) || n.cut(dstName, t.name, off)
	if !bad && n.cfg.RefusePct > 0 && (n.cfg.FaultsUntil == 0 || off < n.cfg.FaultsUntil) {
		key := fmt.Sprintf("dial %s>%s@%d", t.name, dstName, int64(off))
		hh := fnv.New64a()
		hh.Write([]byte(key))
		if int(mix(hh.Sum64()^mix(n.seed))%100) < n.cfg.RefusePct {
			bad = true
		}
	}
	if bad {
		n.st.StreamsRefused++
	}
	tr := n.Trace
	n.mu.Unlock()
	if tr != nil {
		tr(fmt.Sprintf("%d dial %s>%s refused=%v", int64(off), t.name, dstName, bad))
	}
	if bad {
		return nil, fmt.Errorf("sim: no route to %s", a)
	}
	c1, c2 := net.Pipe()
	select {
	case dst.streamCh <- c1:
	default:
		return nil, fmt.Errorf("sim: backlog full")
	}
	return c2, nil
}

func (t *T) StreamCh() <-chan net.Conn { return t.streamCh }

func (t *T) Shutdown() error {
	t.once.Do(func() {
		t.n.mu.Lock()
		if t.n.nodes[t.addr] == t {
			delete(t.n.nodes, t.addr)
		}
		t.n.mu.Unlock()
		close(t.done)
	})
	return nil
}
