package amsim

import "testing"

// TestWorker is the single entry point of the simulation worker binary; what it
// does is selected by VERIF_MODE (see WorkerMain).
func TestWorker(t *testing.T) { WorkerMain(t) }
