package amsim

import (
	"time"
)

// C08 — cluster: at least one notification under any fault, no duplicates when healthy.
//
// 1-3 real clustered instances (real cluster.Peer, memberlist, cluster wait and
// settle stages, replicated notification log) over the simulated network. Alerts
// are posted to every live instance with small skews.
// Faults: packet loss/duplication/delay, partitions, crashes with and without
// their snapshot, restarts, late joins. A third of the runs are fault-free.
//
// At-least-once: O1 of C01 and the resolution clause of C05, evaluated per
// instance that stayed up and held the alert, discharged by a notification from
// ANY instance; the bound is extended by the settle time-out and (cluster size -
// 1) x peer time-out. No duplicates when healthy: in fault-free two-instance runs
// (where gossip delivery to the only peer is certain) the merged stream of both
// instances must satisfy the notify-only-on-change rule of C04.

func c08Gen(seed uint64, tier string) *Plan {
	rng := NewRng(seed)
	start := BubbleEpoch.Add(120*24*time.Hour + Dur(rng.Intn(86400*200))*time.Second)
	p := &Plan{Prop: "C08", Family: "cluster", Seed: seed, Start: start}
	n := rng.Range(1, 3)
	healthy := rng.Bool(0.4)
	gw := rng.Dur(time.Second, 10*time.Second)
	gi := rng.Dur(15*time.Second, 60*time.Second)
	rep := rng.Dur(2*time.Minute, 10*time.Minute)
	rc := Receiver{Name: "r0", Webhooks: []Webhook{{SendResolved: true}}}
	if rng.Bool(0.4) {
		rc.Webhooks = append(rc.Webhooks, Webhook{SendResolved: rng.Bool(0.5)})
	}
	cfg := &Config{ResolveTimeout: rng.Dur(2*time.Minute, 5*time.Minute),
		Route:     &Route{Receiver: "r0", GroupBy: Pick(rng, [][]string{{"alertname"}, {"alertname", "job"}, {}}), GroupBySet: true, GroupWait: gw, GroupWaitSet: true, GroupInterval: gi, RepeatInterval: rep},
		Receivers: []Receiver{rc}}
	p.Configs = []*Config{cfg}
	// peer names decide positions: every assignment occurs
	names := []string{"am-1", "am-2", "am-3"}
	perm := rng.Intn(6)
	order := [][]int{{0, 1, 2}, {0, 2, 1}, {1, 0, 2}, {1, 2, 0}, {2, 0, 1}, {2, 1, 0}}[perm]
	for i := 0; i < n; i++ {
		ip := InstPlan{Name: names[order[i]%3]}
		if n < 3 {
			ip.Name = names[(order[i])%3]
		}
		if i > 0 {
			ip.Peers = []int{0}
		}
		p.Insts = append(p.Insts, ip)
	}
	// names must be distinct
	seen := map[string]bool{}
	for i := range p.Insts {
		for seen[p.Insts[i].Name] {
			p.Insts[i].Name += "x"
		}
		seen[p.Insts[i].Name] = true
	}
	peerTimeout := rng.Dur(2*time.Second, 15*time.Second)
	// variant: the earliest-named instance joins late and is not sent the alerts, so
	// the others create their groups at one position and flush them at another; with a
	// group_interval not above the peer time-out the cluster wait is as long as the
	// flush time-out that was valid when the group was created
	lateFirst := -1
	if !healthy && n > 1 && rng.Bool(0.35) {
		for i := range p.Insts {
			if lateFirst < 0 || p.Insts[i].Name < p.Insts[lateFirst].Name {
				lateFirst = i
			}
		}
		if lateFirst == 0 {
			// instance 0 is everybody's seed: let instance 1 be the seed instead
			for i := range p.Insts {
				p.Insts[i].Peers = nil
				if i != 1 {
					p.Insts[i].Peers = []int{1}
				}
			}
		}
		p.Insts[lateFirst].StartAt = rng.Dur(90*time.Second, 4*time.Minute)
		peerTimeout = rng.Dur(10*time.Second, 20*time.Second)
		cfg.Route.GroupInterval = rng.Dur(10*time.Second, 20*time.Second)
		cfg.Route.GroupWait = rng.Dur(time.Second, 5*time.Second)
	}
	p.Opts = InstOpts{Cluster: true, PeerTimeout: peerTimeout, GossipInterval: 200*time.Millisecond + 7, PushPullInterval: Pick(rng, []Dur{20 * time.Second, 60 * time.Second}) + 29,
		ProbeInterval: time.Second + 13, ProbeTimeout: 500*time.Millisecond + 3, SettleTimeout: rng.Dur(0, 6*time.Second), ReconnectInterval: 10*time.Second + 17,
		Retention: 2 * time.Hour, MaintenanceInterval: rng.Dur(time.Minute, 10*time.Minute) + 13, AlertGCInterval: 30*time.Minute + 29, DispatchMaintenance: 30*time.Second + 7}
	p.Horizon = rng.Dur(12*time.Minute, 35*time.Minute)
	if tier == "thorough" {
		p.Horizon = rng.Dur(20*time.Minute, 90*time.Minute)
	}
	p.Net = &NetPlan{MinDelay: 2*time.Millisecond + 11, FaultsUntil: time.Millisecond}
	b := &planBuilder{p: p, used: map[Dur]bool{}}
	downFrom := map[int]Dur{}
	downTo := map[int]Dur{}
	if !healthy {
		p.Net.FaultsUntil = 0 // faults for the whole run
		p.Net.DropPct = rng.Range(0, 40)
		p.Net.DupPct = rng.Range(0, 20)
		p.Net.Jitter = rng.Dur(0, 2*peerTimeout)
		for c := rng.Range(0, 3); c > 0 && n > 1; c-- {
			from := rng.Dur(20*time.Second, p.Horizon-time.Minute)
			p.Net.Parts = append(p.Net.Parts, Partition{From: from, To: from + rng.Dur(10*time.Second, 5*time.Minute), A: []int{rng.Intn(n)}, OneWay: rng.Bool(0.3)})
		}
		// crashes / restarts: never all instances at once
		if n > 1 && rng.Bool(0.6) {
			i := rng.Range(0, n-1)
			at := rng.Dur(time.Minute, p.Horizon*2/3)
			kind := Pick(rng, []string{"crash", "crash", "stop"})
			a := Action{At: at, Kind: kind, Inst: i}
			if kind == "crash" && rng.Bool(0.5) {
				a.N = 1 // power loss: unsynced data may be lost
			}
			b.add(a)
			back := at + rng.Dur(5*time.Second, 4*time.Minute)
			downFrom[i], downTo[i] = at, p.Horizon
			if rng.Bool(0.7) && back < p.Horizon-time.Minute {
				b.add(Action{At: back, Kind: "start", Inst: i})
				downTo[i] = back
			}
		}
	}
	// alert timelines
	nsets := rng.Range(1, 4)
	sets := genLabelSets(rng.Fork("sets"), nsets)
	hb := cfg.ResolveTimeout/3 + rng.Dur(0, 10*time.Second)
	zero := Dur(0)
	for _, ls := range sets {
		// the instances this alert's sender talks to
		var to []int
		// the property's premise: every (live) instance receives the alerts
		for i := 0; i < n; i++ {
			to = append(to, i)
		}
		if len(to) == 0 {
			to = []int{rng.Intn(n)}
		}
		t := rng.Dur(10*time.Second, p.Horizon/3)
		stop := t + rng.Dur(3*time.Minute, p.Horizon)
		for ; t < stop && t < p.Horizon-time.Minute; t += hb {
			for k, i := range to {
				at := t + Dur(k)*rng.Dur(time.Millisecond, 1500*time.Millisecond)
				if at >= downFrom[i] && at < downTo[i] && downTo[i] > 0 {
					continue // the sender cannot reach a dead instance
				}
				if p.Insts[i].StartAt > 0 && at < p.Insts[i].StartAt+time.Second {
					continue // not started yet
				}
				b.add(Action{At: at, Kind: "post", Inst: i, Alerts: []PAlert{{Labels: ls}}})
			}
		}
		if rng.Bool(0.6) && t < p.Horizon-2*time.Minute {
			for k, i := range to {
				at := t - hb/2 + Dur(k)*rng.Dur(time.Millisecond, time.Second)
				if at >= downFrom[i] && at < downTo[i] && downTo[i] > 0 {
					continue
				}
				if p.Insts[i].StartAt > 0 && at < p.Insts[i].StartAt+time.Second {
					continue
				}
				b.add(Action{At: at, Kind: "post", Inst: i, Alerts: []PAlert{{Labels: ls, EndOff: &zero}}, Str: "resolve"})
			}
		}
	}
	// receiver faults now and then
	if !healthy && rng.Bool(0.4) {
		f := RcvFault{Inst: -1, Receiver: "r0", Integ: 0, Mode: Pick(rng, []string{"5xx", "hang", "reset"})}
		f.From = rng.Dur(0, p.Horizon/2)
		f.To = f.From + rng.Dur(10*time.Second, 3*time.Minute)
		p.Faults = append(p.Faults, f)
	}
	p.SortActions()
	p.Params = map[string]any{"healthy": healthy, "n": n}
	return p
}

func c08Check(p *Plan, r *RunResult) *Verdict {
	v := &Verdict{}
	n := len(p.Insts)
	healthy, _ := p.Params["healthy"].(bool)
	// healthy is a property of what happened, not of the generator's intention
	for _, e := range r.H.Events {
		if e.Kind == "crash" || e.Kind == "stop" || e.Kind == "start-failed" {
			healthy = false
		}
	}
	if p.Net != nil && (p.Net.DropPct > 0 || p.Net.DupPct > 0 || p.Net.Jitter > 0 || len(p.Net.Parts) > 0) && p.Net.FaultsUntil != time.Millisecond {
		healthy = false
	}
	if len(p.Faults) > 0 {
		healthy = false
	}
	extra := p.Opts.SettleTimeout + Dur(n-1)*p.Opts.PeerTimeout + 5*time.Second
	for i := range p.Insts {
		m := BuildModel(p, r.H, i)
		m.Union = true
		// at least once: any instance may discharge what instance i owes
		checkO1("C08", m, v, extra)
		checkResolvedUnion("C08", m, v, extra)
	}
	if healthy && n <= 2 {
		// alerts were posted to every instance: instance 0's model describes the cluster
		m := BuildModel(p, r.H, 0)
		m.Union = true
		checkJustified("C08", m, v)
		v.Ob("healthy-run-checked-for-duplicates")
	}
	return v
}

func init() {
	Register(&Prop{
		ID: "C08", Level: "exploration", Gen: c08Gen, Check: c08Check,
		Rule:        "seeded run of 1-3 real clustered instances whose peer names are permuted (every position assignment), peer time-out 2-15 s, settle time-out 0-6 s, push/pull 20/60 s; 1-4 label sets with heartbeats posted to every live instance (the property's premise) with skews up to 1.5 s, optional explicit resolve; 40 % of the runs are fault-free, the others have packet loss 0-40 %, duplication 0-20 %, delay up to twice the peer time-out, up to 3 partitions (also one-way), a crash (process kill or power loss) or graceful stop of one instance with or without a later restart on its disk, and receiver fault windows. Non-trivial: an at-least-once obligation was evaluated in a clean window or a healthy run's merged notification stream was checked for duplicates; distinct by abstract trace incl. fault counts.",
		Real:        []string{"app.New wiring with clustering", "cluster.Peer (position, settle, ready), delegate, channel", "hashicorp/memberlist", "notify pipeline incl. ClusterGossipSettleStage and ClusterWaitStage, timeout extension", "nflog replication (Log broadcast, Merge)", "dispatch, provider, api"},
		Stub:        []string{"clock (synctest, one clock for all instances)", "network: simnet", "receiver endpoints", "disk: simfs (crash with power-loss outcomes)"},
		Assumptions: []string{"no inter-instance clock skew", "the no-duplicates clause is asserted only in fault-free runs of at most two instances, where delivery of a gossiped log entry to the only peer is certain; with three instances gossip may legitimately miss a peer for a while", "at-least-once windows are extended by settle time-out + (n-1) x peer time-out + 5 s"},
	})
}

// checkResolvedUnion: a resolution that instance m holds is reported (by any
// instance) within the bound, if the receiver had been told the alert fires.
func checkResolvedUnion(prop string, m *Model, v *Verdict, extra Dur) {
	h := m.H
	for _, lk := range sortedKeys(m.Labels) {
		ls := m.Labels[lk]
		for _, r := range m.Root.Match(ls) {
			rcv := m.receiver(r.Receiver)
			if rcv == nil {
				continue
			}
			gl := r.GroupLabels(ls)
			B := r.GroupInterval + flushTimeout(r.GroupInterval) + c01Slack + extra
			for i, wh := range rcv.Webhooks {
				if !wh.SendResolved || wh.MaxAlerts > 0 {
					continue
				}
				for _, sb := range m.Subs[lk] {
					if sb.End > sb.T {
						continue // not a resolve
					}
					e := sb.T
					if e+B > m.P.Horizon-time.Second {
						continue
					}
					var lastFiring, lastResolved Dur = -1, -1
					for _, n := range h.Notifs {
						if !n.OK() || n.Receiver != r.Receiver || n.Integ != i || !sameLabels(n.GroupLabels, gl) || n.Done > e {
							continue
						}
						if n.Firing()[lk] && n.Done > lastFiring {
							lastFiring = n.Done
						}
						if n.Resolved()[lk] && n.Done > lastResolved {
							lastResolved = n.Done
						}
					}
					if lastFiring < 0 || lastResolved > lastFiring {
						continue // the receiver does not believe it fires
					}
					exp := 2 * r.RepeatInterval
					if m.retention() < exp {
						exp = m.retention()
					}
					if e-lastFiring > exp {
						continue // the known log-expiry finding (reported under C05)
					}
					// the instance held the alert firing until e, stays up, the alert stays resolved
					if !m.Firing(lk, e-time.Second) || m.Disturbed(lastFiring, e+B) || m.FaultIn(r.Receiver, i, e-c01Slack, e+B) {
						continue
					}
					if !m.Throughout(e+time.Millisecond, e+B, false, func(t Dur) bool { return !m.Firing(lk, t) }) {
						continue
					}
					v.Ob("resolution-reported-by-some-instance")
					found := false
					for _, n := range h.Notifs {
						if n.OK() && n.Receiver == r.Receiver && n.Integ == i && sameLabels(n.GroupLabels, gl) && n.Done > e-c01Slack && n.Done <= e+B && n.Resolved()[lk] {
							found = true
						}
					}
					if !found {
						v.Fail(prop, prop+"/resolution-reported-by-no-instance", e+B, "alert %s (held by %s) was reported firing to %s/%d at %v and resolved at %v; no instance reported the resolution by %v", lk, m.Name, r.Receiver, i, lastFiring, e, e+B)
					}
				}
			}
		}
	}
}
