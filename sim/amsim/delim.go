package amsim

import (
	"bufio"
	"errors"
	"io"

	"google.golang.org/protobuf/encoding/protodelim"
	"google.golang.org/protobuf/proto"
)

var errEOF = errors.New("eof")

type delimReader struct{ br *bufio.Reader }

func newDelimReader(r io.Reader) *delimReader { return &delimReader{br: bufio.NewReader(r)} }

func (d *delimReader) next(m proto.Message) error {
	err := protodelim.UnmarshalFrom(d.br, m)
	if errors.Is(err, io.EOF) {
		return errEOF
	}
	return err
}
