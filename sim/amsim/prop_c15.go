package amsim

import (
	"fmt"
	"sort"
	"strings"
	"time"
)

// C15 — time intervals match the calendar; mute/active gating follows them.
//
// One alert keeps firing; its group flushes every 47-127 s with repeat_interval
// 1 s, so every flush that is not time-muted produces a notification. The window
// (hours to days of virtual time) is placed on a boundary of the run's interval
// specification: a range end of its times/weekdays/days-of-month/months/years,
// a month end, 29 February, a year end or a daylight-saving transition of the
// interval's location. The reference calendar decides for every flush instant
// whether a notification must or must not arrive, and which interval names the
// API must report for the group.

var c15Zones = []string{"UTC", "Europe/Berlin", "America/New_York", "America/Sao_Paulo", "Australia/Lord_Howe", "Australia/Sydney", "Asia/Kolkata", "Asia/Kathmandu", "Pacific/Auckland", "Pacific/Chatham",
	"Africa/Casablanca", "America/St_Johns", "Europe/London", "Asia/Tehran", "America/Santiago", "Pacific/Apia", "Asia/Tokyo", "America/Havana", "Europe/Lisbon", "America/Los_Angeles", "Atlantic/Azores", "Asia/Gaza", "America/Asuncion", "Pacific/Kiritimati", "Etc/GMT+12"}

// dstTransitions lists the instants in year y at which the zone's UTC offset changes.
func dstTransitions(loc *time.Location, y int) []time.Time {
	var out []time.Time
	t := time.Date(y, 1, 1, 0, 0, 0, 0, time.UTC)
	_, prev := t.In(loc).Zone()
	for ; t.Year() == y; t = t.Add(time.Hour) {
		_, off := t.In(loc).Zone()
		if off != prev {
			// refine to the minute
			s := t.Add(-time.Hour)
			for m := 0; m < 60; m++ {
				if _, o := s.Add(Dur(m) * time.Minute).In(loc).Zone(); o != prev {
					out = append(out, s.Add(Dur(m)*time.Minute))
					break
				}
			}
			prev = off
		}
	}
	return out
}

// dstMonthEdges returns, for zone loc, the daylight-saving transitions between
// 2001 and 2045 that fall on the first or the last day of a month (a 23- or
// 25-hour day next to a month boundary). Computed once per zone.
var dstEdgeCache = map[string][]time.Time{}

func dstMonthEdges(zone string, loc *time.Location) []time.Time {
	if v, ok := dstEdgeCache[zone]; ok {
		return v
	}
	var out []time.Time
	for y := 2001; y <= 2045; y++ {
		for _, tr := range dstTransitions(loc, y) {
			l := tr.In(loc)
			if l.Day() == 1 || l.AddDate(0, 0, 1).Month() != l.Month() {
				out = append(out, tr)
			}
		}
	}
	dstEdgeCache[zone] = out
	return out
}

func hm(t time.Time) string { return fmt.Sprintf("%02d:%02d", t.Hour(), t.Minute()) }

func c15Spec(r *Rng, f time.Time, zone string) TISpec {
	sp := TISpec{}
	if zone != "UTC" || r.Bool(0.3) {
		sp.Location = zone
	}
	fl := f
	if loc, err := time.LoadLocation(zone); err == nil {
		fl = f.In(loc)
	}
	any := false
	if r.Bool(0.7) {
		any = true
		a := fl.Add(-r.Dur(time.Minute, 5*time.Hour))
		b := fl.Add(r.Dur(time.Minute, 5*time.Hour))
		switch {
		case r.Bool(0.2):
			sp.Times = [][2]string{{"00:00", hm(b)}}
		case r.Bool(0.2):
			sp.Times = [][2]string{{hm(a), "24:00"}}
		case hm(a) < hm(b):
			sp.Times = [][2]string{{hm(a), hm(b)}}
		default:
			sp.Times = [][2]string{{"00:00", hm(b)}, {hm(a), "24:00"}}
		}
		if r.Bool(0.3) {
			sp.Times = append(sp.Times, [2]string{hm(fl), hm(fl.Add(time.Minute))})
		}
		// a range whose start is not before its end is rejected by the configuration loader
		ok := sp.Times[:0]
		for _, t := range sp.Times {
			if t[0] < t[1] {
				ok = append(ok, t)
			}
		}
		sp.Times = ok
	}
	days := []string{"sunday", "monday", "tuesday", "wednesday", "thursday", "friday", "saturday"}
	if r.Bool(0.4) {
		any = true
		wd := int(fl.Weekday())
		lo, hi := max(0, wd-r.Intn(3)), min(6, wd+r.Intn(3))
		if r.Bool(0.3) && wd < 6 {
			lo, hi = wd+1, 6 // starts tomorrow
		}
		if lo == hi {
			sp.Weekdays = []string{days[lo]}
		} else {
			sp.Weekdays = []string{days[lo] + ":" + days[hi]}
		}
	}
	if r.Bool(0.5) {
		any = true
		d := fl.Day()
		sp.DaysOfMonth = []string{Pick(r, []string{"-1", "-3:-1", "28:31", "1:3", "1", fmt.Sprint(d), fmt.Sprintf("%d:%d", max(1, d-2), min(31, d+1)), "29:31", "-31:-28", "1:31", "-2", "30", "31", "15:-1", "1:-2"})}
		if r.Bool(0.3) {
			sp.DaysOfMonth = append(sp.DaysOfMonth, Pick(r, []string{"1", "-1", "29", "14:16"}))
		}
	}
	months := []string{"", "january", "february", "march", "april", "may", "june", "july", "august", "september", "october", "november", "december"}
	if r.Bool(0.35) {
		any = true
		m := int(fl.Month())
		switch r.Intn(4) {
		case 0:
			sp.Months = []string{months[m]}
		case 1:
			sp.Months = []string{fmt.Sprintf("%d:%d", max(1, m-1), m)}
		case 2:
			sp.Months = []string{months[m] + ":" + months[min(12, m+2)]}
		default:
			sp.Months = []string{fmt.Sprint(min(12, m+1)), "1:2"}
		}
	}
	if r.Bool(0.3) {
		any = true
		y := fl.Year()
		sp.Years = []string{Pick(r, []string{fmt.Sprint(y), fmt.Sprintf("%d:%d", y-1, y), fmt.Sprintf("%d:%d", y+1, y+3), fmt.Sprintf("%d:%d", y, y+1)})}
	}
	if !any {
		sp.Weekdays = []string{"monday:friday"}
	}
	return sp
}

func c15Gen(seed uint64, tier string) *Plan {
	rng := NewRng(seed)
	zone := Pick(rng, c15Zones)
	loc, err := time.LoadLocation(zone)
	if err != nil {
		zone, loc = "UTC", time.UTC
	}
	year := rng.Range(2001, 2090)
	// focus instant
	var f time.Time
	switch rng.Intn(6) {
	case 0, 1: // daylight-saving transition
		if pick := rng.Bool(0.35); pick && len(dstMonthEdges(zone, loc)) > 0 {
			ed := dstMonthEdges(zone, loc)
			// ... on the first or last day of a month: the month boundary next to a
			// 23- or 25-hour day (days counted from the month's end, clamped ranges)
			f = Pick(rng, ed)
			l := f.In(loc)
			if rng.Bool(0.6) {
				if l.Day() == 1 {
					f = time.Date(l.Year(), l.Month(), 1, 0, 0, 0, 0, loc)
				} else {
					f = time.Date(l.Year(), l.Month()+1, 1, 0, 0, 0, 0, loc)
				}
			}
			year = l.Year()
			break
		}
		tr := dstTransitions(loc, year)
		if len(tr) > 0 {
			f = Pick(rng, tr)
			break
		}
		fallthrough
	case 2: // month end (incl. February)
		m := time.Month(rng.Range(1, 12))
		if rng.Bool(0.4) {
			m = time.February
			if rng.Bool(0.5) {
				year = Pick(rng, []int{2004, 2024, 2028, 2048, 2072, 2088})
			}
		}
		f = time.Date(year, m+1, 1, 0, 0, 0, 0, loc)
	case 3: // year end
		f = time.Date(year+1, 1, 1, 0, 0, 0, 0, loc)
	case 4: // midnight of a random day
		f = time.Date(year, time.Month(rng.Range(1, 12)), rng.Range(1, 28), 0, 0, 0, 0, loc)
	default:
		f = time.Date(year, time.Month(rng.Range(1, 12)), rng.Range(1, 28), rng.Intn(24), rng.Intn(60), 0, 0, loc)
	}
	horizon := rng.Dur(6*time.Hour, 30*time.Hour)
	if tier == "thorough" {
		horizon = rng.Dur(24*time.Hour, 72*time.Hour)
	}
	start := f.Add(-rng.Dur(time.Hour, horizon*2/3)).UTC().Truncate(time.Millisecond).Add(Dur(rng.Intn(60000)) * time.Millisecond)
	p := &Plan{Prop: "C15", Family: "single", Seed: seed, Start: start, Horizon: horizon}
	cfg := &Config{ResolveTimeout: 5 * time.Minute}
	nti := rng.Range(1, 3)
	var names []string
	for i := 0; i < nti; i++ {
		ti := TimeInterval{Name: fmt.Sprintf("ti%d", i)}
		for s := rng.Range(1, 2); s > 0; s-- {
			z := zone
			if rng.Bool(0.2) {
				z = Pick(rng, c15Zones)
			}
			ti.Specs = append(ti.Specs, c15Spec(rng, f, z))
		}
		cfg.Intervals = append(cfg.Intervals, ti)
		names = append(names, ti.Name)
	}
	gi := Pick(rng, []Dur{47 * time.Second, 61 * time.Second, 73 * time.Second, 127 * time.Second})
	child := &Route{Matchers: []M{{"alertname", "=~", "T|U"}}, GroupWait: time.Second, GroupWaitSet: true, GroupInterval: gi, RepeatInterval: time.Second}
	switch rng.Intn(3) {
	case 0:
		child.Mute = names[:rng.Range(1, len(names))]
	case 1:
		child.Active = names[:rng.Range(1, len(names))]
	default:
		child.Mute = names[:1]
		child.Active = names[len(names)-1:]
	}
	cfg.Route = &Route{Receiver: "r0", GroupBy: []string{"alertname"}, GroupBySet: true, GroupWait: 30 * time.Second, GroupWaitSet: true, GroupInterval: 5 * time.Minute, RepeatInterval: time.Hour, Routes: []*Route{child}}
	cfg.Receivers = []Receiver{{Name: "r0", Webhooks: []Webhook{{SendResolved: false}}}}
	p.Configs = []*Config{cfg}
	p.Insts = []InstPlan{{Name: "a"}}
	p.Opts = InstOpts{AlertGCInterval: 30*time.Minute + 29, MaintenanceInterval: 15*time.Minute + 13, DispatchMaintenance: 30*time.Second + 7}
	b := &planBuilder{p: p, used: map[Dur]bool{}}
	end := horizon + 24*time.Hour
	b.add(Action{At: 5 * time.Second, Kind: "post", Alerts: []PAlert{{Labels: map[string]string{"alertname": "T", "job": "j"}, EndOff: &end}}})
	for n := rng.Range(6, 20); n > 0; n-- {
		b.add(Action{At: rng.Dur(time.Minute, horizon-time.Second), Kind: "get_groups", Query: "muted=true"})
	}
	if rf := rng.Fork("flap"); rf.Bool(0.25) {
		// A second group (alert U) that ends, is flushed empty and destroyed, and whose
		// alert fires again exactly while the dispatcher's maintenance sweep is
		// suspended between stopping the destroyed group and removing it: the new
		// group's mute marker, set by its first (muted) flush, must survive the sweep.
		cU := rf.Dur(20*time.Second, 90*time.Second).Truncate(time.Millisecond)
		e := rf.Dur(40*time.Second, 100*time.Second).Truncate(time.Millisecond)
		cU = b.add(Action{At: cU, Kind: "post", Alerts: []PAlert{{Labels: map[string]string{"alertname": "U", "job": "j"}, EndOff: &e}}, Str: "flap"})
		k := (e - time.Second + gi - 1) / gi
		tf := cU + time.Second + k*gi // the flush that finds U resolved
		sweep := 30*time.Second + 7
		ts := ((tf+100*time.Millisecond)/sweep + 1) * sweep // the next maintenance sweep
		re := b.add(Action{At: ts + 20*time.Millisecond, Kind: "post", Alerts: []PAlert{{Labels: map[string]string{"alertname": "U", "job": "j"}, EndOff: &end}}, Str: "flap"})
		p.Holds = append(p.Holds, Hold{Site: "dispatch.maint.destroyed", Match: `alertname="U"`, Delay: 2500*time.Millisecond + 3})
		for _, d := range []Dur{1600 * time.Millisecond, 3 * time.Second, 6 * time.Second, 15 * time.Second, 40 * time.Second} {
			b.add(Action{At: re + d, Kind: "get_groups", Query: "muted=true"})
		}
	}
	sib := false
	if rs := rng.Fork("sibling"); len(p.Holds) == 0 && rs.Bool(0.3) {
		// A sibling route with the same matcher chain (hence the same group keys), its
		// own receiver, no time intervals and a short group_interval. Alert U ends just
		// after a flush of the gated route's group: the sibling's group notices within
		// seconds, empties, is destroyed and collected by the maintenance sweep while
		// the gated route's group (same group key, other route) still exists with the
		// marker of its last flush. The API must keep reporting that marker, and the
		// sibling must never be reported as muted.
		sib = true
		sr := &Route{Receiver: "r1", Matchers: child.Matchers, Continue: true, GroupWait: time.Second, GroupWaitSet: true,
			GroupInterval: Pick(rs, []Dur{5 * time.Second, 7 * time.Second, 11 * time.Second}), RepeatInterval: time.Hour}
		if rs.Bool(0.5) {
			cfg.Route.Routes = []*Route{sr, child}
		} else {
			child.Continue = true
			sr.Continue = false
			cfg.Route.Routes = []*Route{child, sr}
		}
		cfg.Receivers = append(cfg.Receivers, Receiver{Name: "r1", Webhooks: []Webhook{{SendResolved: rs.Bool(0.5)}}})
		k := Dur(rs.Range(1, 3))
		e := (time.Second + k*gi + rs.Dur(300*time.Millisecond, 3*time.Second)).Truncate(time.Millisecond)
		cU := b.add(Action{At: rs.Dur(20*time.Second, 90*time.Second).Truncate(time.Millisecond), Kind: "post", Alerts: []PAlert{{Labels: map[string]string{"alertname": "U", "job": "j"}, EndOff: &e}}, Str: "flap"})
		// the gated group's flush that finds U resolved; probes between the sweeps that
		// follow the sibling group's destruction and that flush
		tf := cU + time.Second + (k+1)*gi
		for at := cU + e + 2*time.Second; at < tf-300*time.Millisecond; at += 4*time.Second + 500*time.Millisecond {
			b.add(Action{At: at, Kind: "get_groups", Query: "muted=true"})
		}
		if rs.Bool(0.5) {
			// ... and U fires again before that flush: the gated group lives on
			// (resolved alerts are not listed by the API, so only a re-fired U shows the
			// gated group's marker between the sweep and the next flush); preferably
			// after the sweep that collects the sibling's group
			lo, hi := cU+e+sr.GroupInterval+31*time.Second, tf-400*time.Millisecond
			at := tf - rs.Dur(400*time.Millisecond, 3*time.Second)
			if lo < hi {
				at = rs.Dur(lo, hi)
			}
			re := b.add(Action{At: at.Truncate(time.Millisecond), Kind: "post", Alerts: []PAlert{{Labels: map[string]string{"alertname": "U", "job": "j"}, EndOff: &end}}, Str: "refire"})
			for d := 150 * time.Millisecond; re+d < tf-150*time.Millisecond; d += 1700 * time.Millisecond {
				b.add(Action{At: re + d, Kind: "get_groups", Query: "muted=true"})
			}
			for _, d := range []Dur{gi + 2*time.Second, 2*gi + 3*time.Second, 3*gi + 35*time.Second} {
				b.add(Action{At: re + d, Kind: "get_groups", Query: "muted=true"})
			}
		}
	}
	p.SortActions()
	p.Params = map[string]any{"zone": zone, "focus": f.UTC().Format(time.RFC3339), "gi": int64(gi), "sibling": sib}
	return p
}

// c15Gated returns the route that carries the run's time intervals.
func c15Gated(m *Model) *MRoute {
	for _, c := range m.Root.Children {
		if len(c.Mute)+len(c.Active) > 0 {
			return c
		}
	}
	return m.Root.Children[0]
}

func c15Check(p *Plan, r *RunResult) *Verdict {
	v := &Verdict{}
	m := BuildModel(p, r.H, 0)
	route := c15Gated(m)
	gi := route.GroupInterval
	sibling, _ := p.Params["sibling"].(bool)
	// the alert was accepted at postT; its group flushes at postT+group_wait+k*gi
	var postT Dur = -1
	var postsU []Dur // acceptance times of alert U (first submission, re-fire)
	for _, rec := range r.H.API {
		if rec.Method == "POST" && rec.Code == 200 && rec.Action >= 0 && p.Actions[rec.Action].Kind == "post" {
			if p.Actions[rec.Action].Str == "flap" {
				postsU = append(postsU, rec.T)
			} else if postT < 0 {
				postT = rec.T
			}
		}
	}
	if postT < 0 {
		return v
	}
	arrived := map[Dur]*Notif{}
	for _, n := range r.H.Notifs {
		if n.GroupLabels["alertname"] == "T" && n.Receiver == "r0" {
			arrived[n.T] = n
		}
	}
	if sibling {
		// the sibling route has no time intervals: its first flush is always notified
		v.Ob("ungated-sibling-notified")
		ok := false
		for _, n := range r.H.Notifs {
			if n.Receiver == "r1" && n.GroupLabels["alertname"] == "T" && n.T == postT+time.Second {
				ok = true
			}
		}
		if !ok && postT+time.Second < p.Horizon-time.Second {
			v.Fail("C15", "C15/ungated-sibling-not-notified", postT+time.Second, "the sibling route (same matchers, no time intervals, receiver r1) did not notify its first flush at %v", postT+time.Second)
		}
	}
	names := func(t Dur) (bool, []string) { return m.TimeMuted(route, t) }
	var ticks []Dur
	for t := postT + route.GroupWait; t < p.Horizon-time.Second; t += gi {
		ticks = append(ticks, t)
	}
	seen := map[Dur]bool{}
	for _, t := range ticks {
		muted, by := names(t)
		v.Ob("flush-gated-by-calendar")
		n := arrived[t]
		seen[t] = true
		at := p.Start.Add(t).UTC().Format("2006-01-02T15:04:05.000Z")
		switch {
		case muted && n != nil:
			v.Fail("C15", "C15/notified-although-muted", t, "flush at %s was notified although %v contain that instant (intervals %s)", at, by, tiText(m.Cfg))
		case !muted && n == nil:
			v.Fail("C15", "C15/muted-although-not-in-interval", t, "flush at %s produced no notification although no mute interval contains it and the active intervals (if any) do (mute %v active %v; intervals %s)", at, route.Mute, route.Active, tiText(m.Cfg))
		}
		if len(v.Violations) > 3 {
			return v
		}
	}
	for t := range arrived {
		if !seen[t] && t < p.Horizon-time.Second {
			v.Fail("C15", "C15/notification-off-the-flush-grid", t, "a notification arrived at %v, which is not a flush instant of the group (first flush %v, every %v)", t, postT+route.GroupWait, gi)
			break
		}
	}
	// the API reports the group as muted with exactly the muting names of the last flush
	for _, rec := range r.H.API {
		if rec.Action < 0 || p.Actions[rec.Action].Kind != "get_groups" || rec.Code != 200 {
			continue
		}
		var last Dur = -1
		for _, t := range ticks {
			if t < rec.T {
				last = t
			}
		}
		// the flapping alert's group: flush grid of its current incarnation
		var lastU Dur = -1
		for i := len(postsU) - 1; i >= 0; i-- {
			if postsU[i] < rec.T {
				for t := postsU[i] + route.GroupWait; t < rec.T; t += gi {
					lastU = t
				}
				break
			}
		}
		var groups []struct {
			Receiver struct {
				Name string `json:"name"`
			} `json:"receiver"`
			Alerts []struct {
				Labels map[string]string `json:"labels"`
				Status struct {
					MutedBy []string `json:"mutedBy"`
				} `json:"status"`
			} `json:"alerts"`
		}
		if jsonUnmarshal(rec.Resp, &groups) != nil {
			continue
		}
		found := false
		for _, g := range groups {
			if g.Receiver.Name == "r1" {
				// the sibling route is never time-muted
				for _, a := range g.Alerts {
					v.Ob("api-ungated-sibling-not-muted")
					if len(a.Status.MutedBy) > 0 {
						v.Fail("C15", "C15/api-mutedBy-on-ungated-route", rec.T, "GET /alerts/groups at %v reports mutedBy %v for a group of the sibling route, which has no time intervals", rec.T, a.Status.MutedBy)
					}
				}
				continue
			}
			for _, a := range g.Alerts {
				lastX := last
				if a.Labels["alertname"] == "U" {
					lastX = lastU
				} else {
					found = true
				}
				if lastX < 0 || rec.T-lastX < 100*time.Millisecond {
					continue
				}
				_, by := names(lastX)
				last := lastX
				// compared as sets: a name is repeated when several entries of one interval match
				gs := map[string]bool{}
				for _, x := range a.Status.MutedBy {
					gs[x] = true
				}
				got := sortedKeys(gs)
				want := append([]string(nil), by...)
				sort.Strings(want)
				v.Ob("api-reports-muting-intervals")
				if fmt.Sprint(got) != fmt.Sprint(want) {
					v.Fail("C15", "C15/api-mutedBy-wrong", rec.T, "GET /alerts/groups at %v reports mutedBy %v; at the last flush (%s) the muting intervals were %v", rec.T, got, p.Start.Add(last).UTC().Format(time.RFC3339), want)
				}
			}
		}
		if !found && last >= 0 && rec.T-last >= 100*time.Millisecond {
			v.Fail("C15", "C15/group-missing-from-api", rec.T, "GET /alerts/groups?muted=true at %v does not list the group", rec.T)
		}
	}
	return v
}

func tiText(c *Config) string {
	var parts []string
	for _, ti := range c.Intervals {
		parts = append(parts, ti.Name+"="+mustJSON(ti.Specs))
	}
	return strings.Join(parts, " ")
}

func init() {
	Register(&Prop{
		ID: "C15", Level: "exploration", Gen: c15Gen, Check: c15Check,
		Rule:        "seeded run: 1-3 named time intervals with 1-2 entries each, generated around a focus instant (a daylight-saving transition of one of 25 IANA zones, a month end incl. 28/29 February, a year end, a midnight, or a random minute between 2001 and 2090): time ranges ending/starting minutes to hours around it (incl. 00:00 and 24:00 ends and one-minute ranges), weekday ranges, days of month (positive, negative, clamped, mixed), months, years, location set or defaulted; a child route uses them as mute and/or active intervals; one alert fires for the whole window of 6-30 h (thorough 24-72 h) that contains the focus; the group flushes every 47/61/73/127 s (phases sweep through the minutes) with repeat_interval 1 s; 6-20 GET /alerts/groups?muted=true probes; a quarter of the runs add a second group that is destroyed and re-created while the maintenance sweep is suspended; 30% of the others add a sibling route with the same matcher chain (same group keys), its own receiver, no intervals and a short group_interval, whose group for a second alert is destroyed and collected while the gated route's group of the same key lives on, with the alert firing again before the gated group's next flush and probes in between. Every flush instant is judged by the reference calendar; mutedBy must equal the muting names of the gated group's last flush and be empty for the sibling; the sibling's first flush must be notified. Non-trivial: at least one flush was judged; distinct by abstract trace (the muted/notified pattern is part of it).",
		Real:        []string{"config loader (time_intervals parsing and validation)", "timeinterval (ContainsTime, Intervener)", "notify TimeActiveStage/TimeMuteStage + group marker", "dispatch timers", "api/v2 groups (mutedBy)", "webhook notifier"},
		Stub:        []string{"clock (synctest; the run is placed at the chosen calendar instant)", "receiver endpoint"},
		Assumptions: []string{"only the instants the simulated clock visits (flush ticks) are judged; the sweep over every instant and zone is a pure-function enumeration outside this technique", "the zone database of the sandbox is used by both the code under test and the reference"},
	})
}
