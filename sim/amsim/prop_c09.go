package amsim

import (
	"bytes"
	"context"
	"fmt"
	"sort"
	"strings"
	"time"

	"google.golang.org/protobuf/types/known/timestamppb"

	"github.com/prometheus/alertmanager/silence"
	pb "github.com/prometheus/alertmanager/silence/silencepb"
)

// C09 — replicated silences converge: newest update wins regardless of delivery order.
//
// 2-4 real instances with clustering off; their silence stores' broadcast function
// is replaced (public SetBroadcast) by a recorder. The plan delivers crafted
// versions (distinct update times; extend, shorten, expire) and recorded local
// broadcasts to the replicas in independent orders, duplicated, singly or batched,
// simulates full-state exchanges (MarshalBinary -> Merge), mixes in API edits and
// GC, and finishes with two all-pairs full-state exchanges.

type c09State struct {
	wire     map[int][][]byte     // action index -> broadcasts captured while it ran
	bcasts   int                  // broadcasts during the current handler
	accepted map[string]time.Time // id -> newest UpdatedAt that changed some replica's state
	content  map[string]silDump   // id + updatedAt -> content
}

func c09st(w *World) *c09State {
	if w.Scratch == nil {
		w.Scratch = map[string]any{}
	}
	st, _ := w.Scratch["c09"].(*c09State)
	if st == nil {
		st = &c09State{wire: map[int][][]byte{}, accepted: map[string]time.Time{}, content: map[string]silDump{}}
		w.Scratch["c09"] = st
	}
	return st
}

func c09ID(key string) string {
	return fmt.Sprintf("%08x-1111-4000-8000-%012x", uint32(Hash64(7, key)), uint64(Hash64(9, key))&0xffffffffffff)
}

func (w *World) c09Mesh(v *PVer) *pb.MeshSilence {
	t := func(d Dur) *timestamppb.Timestamp { return timestamppb.New(w.Plan.Start.Add(d)) }
	s := &pb.Silence{Id: c09ID(v.Key), MatcherSets: pbSets(v.Sets), StartsAt: t(v.StartOff), EndsAt: t(v.EndOff), UpdatedAt: t(v.UpdatedOff), Comment: v.Comment, CreatedBy: "peer"}
	return &pb.MeshSilence{Silence: s, ExpiresAt: timestamppb.New(s.EndsAt.AsTime().Add(w.retention()))}
}

func (w *World) c09Ver(e PEntry) *PVer {
	for i := range w.Plan.Vers {
		if w.Plan.Vers[i].Key == e.Key && w.Plan.Vers[i].Ver == e.Ver {
			return &w.Plan.Vers[i]
		}
	}
	return nil
}

func silMap(ds []silDump) map[string]silDump {
	m := map[string]silDump{}
	for _, d := range ds {
		m[d.ID] = d
	}
	return m
}

func sameSil(a, b silDump) bool {
	return a.ID == b.ID && a.Start.Equal(b.Start) && a.End.Equal(b.End) && a.Updated.Equal(b.Updated) && fmt.Sprint(a.Sets) == fmt.Sprint(b.Sets)
}

// c09Merge hands bytes to replica i and checks the per-merge safety rules.
func (w *World) c09Merge(i int, b []byte, what string) {
	in := w.Insts[i]
	if in.App == nil || len(b) == 0 {
		return
	}
	st := c09st(w)
	now := time.Now()
	before := silMap(w.dumpSilences(i))
	st.bcasts = 0
	err := in.Int.Silences.Merge(b)
	nb := st.bcasts
	after := silMap(w.dumpSilences(i))
	w.H.Fire("merge:" + strings.SplitN(what, " ", 2)[0])
	if err != nil {
		w.H.AddEvent("merge-error", in.Name, err.Error())
		return
	}
	// decode what was delivered
	var incoming []silDump
	var expires []time.Time
	if msgs, derr := decodeMeshSilences(b); derr == nil {
		for _, m := range msgs {
			incoming = append(incoming, dumpOf(m.Silence))
			expires = append(expires, m.ExpiresAt.AsTime())
		}
	}
	changed := 0
	for id, a := range after {
		bf, had := before[id]
		if had && sameSil(a, bf) {
			continue
		}
		changed++
		w.Online.Ob("merge-never-goes-backwards")
		if had && a.Updated.Before(bf.Updated) {
			w.Online.Fail("C09", "C09/newer-version-replaced-by-older", w.H.now(), "replica %s: silence %s went from the version updated at %v to the older one updated at %v (%s)", in.Name, id[:8], bf.Updated.Sub(w.Plan.Start), a.Updated.Sub(w.Plan.Start), what)
		}
		// the new content must be one of the delivered versions, and not one past its retention
		okv := false
		for k, inc := range incoming {
			if sameSil(inc, a) {
				okv = true
				if expires[k].Before(now) {
					w.Online.Fail("C09", "C09/version-past-retention-accepted", w.H.now(), "replica %s accepted a version of %s whose expiry %v had passed at %v (%s)", in.Name, id[:8], expires[k].Sub(w.Plan.Start), w.H.now(), what)
				}
			}
		}
		if !okv {
			w.Online.Fail("C09", "C09/merge-fabricated-content", w.H.now(), "replica %s: after the merge silence %s has content that is none of the delivered versions (%s)", in.Name, id[:8], what)
		}
		if cur, ok := st.accepted[id]; !ok || a.Updated.After(cur) {
			st.accepted[id] = a.Updated
		}
		st.content[id+a.Updated.String()] = a
	}
	for id := range before {
		if _, ok := after[id]; !ok {
			w.Online.Fail("C09", "C09/merge-removed-silence", w.H.now(), "replica %s: silence %s disappeared during a merge (%s)", in.Name, id[:8], what)
		}
	}
	// a delivered version that is newer than what the replica holds and not past its
	// retention must win
	for k, inc := range incoming {
		if expires[k].Before(now) {
			continue
		}
		// only the newest of the batch for this id matters
		newest := true
		for _, o := range incoming {
			if o.ID == inc.ID && o.Updated.After(inc.Updated) {
				newest = false
			}
		}
		bf, had := before[inc.ID]
		if newest && (!had || bf.Updated.Before(inc.Updated)) {
			w.Online.Ob("newer-unexpired-version-wins")
			if a, ok := after[inc.ID]; !ok || !sameSil(a, inc) {
				w.Online.Fail("C09", "C09/newer-version-not-applied", w.H.now(), "replica %s: delivered version of %s updated at %v (unexpired, newer than the stored one) was not applied (%s)", in.Name, inc.ID[:8], inc.Updated.Sub(w.Plan.Start), what)
			}
		}
	}
	w.Online.Ob("known-data-is-not-regossiped")
	if changed == 0 && nb > 0 {
		w.Online.Fail("C09", "C09/known-data-regossiped", w.H.now(), "replica %s: merging %d bytes changed nothing but triggered %d broadcast(s) (%s)", in.Name, len(b), nb, what)
	}
	if changed > 0 && nb == 0 && len(b) < 700 {
		w.Online.Fail("C09", "C09/accepted-change-not-regossiped", w.H.now(), "replica %s: a merge changed %d silence(s) but nothing was broadcast (%s)", in.Name, changed, what)
	}
}

func decodeMeshSilences(b []byte) ([]*pb.MeshSilence, error) {
	var out []*pb.MeshSilence
	br := bytes.NewReader(b)
	rd := newDelimReader(br)
	for {
		var m pb.MeshSilence
		err := rd.next(&m)
		if err == errEOF {
			return out, nil
		}
		if err != nil {
			return out, err
		}
		if m.Silence == nil {
			return out, fmt.Errorf("record without silence")
		}
		if len(m.Silence.MatcherSets) == 0 && len(m.Silence.Matchers) > 0 {
			m.Silence.MatcherSets = []*pb.MatcherSet{{Matchers: m.Silence.Matchers}}
		}
		out = append(out, &m)
	}
}

func init() {
	setupHooks["C09"] = func(w *World) {
		w.OnStart = func(i int) {
			in := w.Insts[i]
			in.Int.Silences.SetBroadcast(func(b []byte) {
				st := c09st(w)
				st.bcasts++
				st.wire[w.CurAction] = append(st.wire[w.CurAction], append([]byte(nil), b...))
			})
		}
		w.PostAction = func(idx int) {
			// local API operations also define accepted versions
			st := c09st(w)
			a := &w.Plan.Actions[idx]
			if a.Kind == "silence" || a.Kind == "expire" {
				for _, d := range w.dumpSilences(a.Inst) {
					if cur, ok := st.accepted[d.ID]; !ok || d.Updated.After(cur) {
						st.accepted[d.ID] = d.Updated
					}
					st.content[d.ID+d.Updated.String()] = d
				}
			}
		}
	}
	RegisterAction("deliver", func(w *World, idx int, a *Action) {
		var ms []*pb.MeshSilence
		for _, e := range a.Entries {
			if v := w.c09Ver(e); v != nil {
				ms = append(ms, w.c09Mesh(v))
			}
		}
		w.c09Merge(a.Inst, marshalMesh(ms...), fmt.Sprintf("deliver %v", a.Entries))
	})
	RegisterAction("relay", func(w *World, idx int, a *Action) {
		st := c09st(w)
		msgs := st.wire[a.N]
		if a.Str == "batch" {
			var all []byte
			for _, m := range msgs {
				all = append(all, m...)
			}
			w.c09Merge(a.Inst, all, fmt.Sprintf("relay-batch of action %d", a.N))
			return
		}
		for _, m := range msgs {
			w.c09Merge(a.Inst, m, fmt.Sprintf("relay of action %d", a.N))
		}
	})
	RegisterAction("pushpull", func(w *World, idx int, a *Action) { w.c09PushPull(a.Inst, a.N) })
	RegisterAction("probe_mutes", func(w *World, idx int, a *Action) { w.probeMutes(w.Plan.Prop, a.Inst, "probe") })
	finalHooks["C09"] = func(w *World) {
		n := len(w.Insts)
		for round := 0; round < 2; round++ {
			for i := 0; i < n; i++ {
				for j := 0; j < n; j++ {
					if i != j {
						w.c09PushPull(i, j)
					}
				}
			}
		}
		w.c09Converged()
	}
}

// c09PushPull: both sides send their full state, as memberlist's push/pull does.
func (w *World) c09PushPull(i, j int) {
	a, b := w.Insts[i], w.Insts[j]
	if a.App == nil || b.App == nil {
		return
	}
	sa, err1 := a.Int.Silences.MarshalBinary()
	sb, err2 := b.Int.Silences.MarshalBinary()
	if err1 != nil || err2 != nil {
		return
	}
	w.c09Merge(j, sa, fmt.Sprintf("full-state of %s", a.Name))
	w.c09Merge(i, sb, fmt.Sprintf("full-state of %s", b.Name))
	w.H.Fire("pushpull")
}

// c09Converged: after the final exchanges every replica holds, for every id whose
// winning version is still within retention, exactly that version.
func (w *World) c09Converged() {
	st := c09st(w)
	now := time.Now()
	ret := w.retention()
	var dumps []map[string]silDump
	for i := range w.Insts {
		if w.Insts[i].App == nil {
			return
		}
		dumps = append(dumps, silMap(w.dumpSilences(i)))
	}
	ids := make([]string, 0, len(st.accepted))
	for id := range st.accepted {
		ids = append(ids, id)
	}
	sort.Strings(ids)
	for _, id := range ids {
		win := st.content[id+st.accepted[id].String()]
		if !win.End.Add(ret).After(now.Add(time.Second)) {
			continue // past retention: may or may not have been collected
		}
		w.Online.Ob("replicas-converge-on-newest-version")
		for i, d := range dumps {
			got, ok := d[id]
			if !ok {
				w.Online.Fail("C09", "C09/replica-missing-silence-after-exchange", w.H.now(), "after two all-pairs full-state exchanges replica %s does not hold silence %s (newest version updated at %v, end %v)", w.Insts[i].Name, id[:8], win.Updated.Sub(w.Plan.Start), win.End.Sub(w.Plan.Start))
				continue
			}
			if !sameSil(got, win) {
				w.Online.Fail("C09", "C09/replicas-diverge", w.H.now(), "after two all-pairs full-state exchanges replica %s holds silence %s updated at %v end %v; the newest accepted version was updated at %v end %v", w.Insts[i].Name, id[:8], got.Updated.Sub(w.Plan.Start), got.End.Sub(w.Plan.Start), win.Updated.Sub(w.Plan.Start), win.End.Sub(w.Plan.Start))
			}
		}
	}
	for i := range w.Insts {
		w.probeMutes("C09", i, "after convergence")
	}
	_ = silence.ErrNotFound
	_ = context.Background
}

func c09Gen(seed uint64, tier string) *Plan {
	rng := NewRng(seed)
	start := BubbleEpoch.Add(20*24*time.Hour + Dur(rng.Intn(86400*300))*time.Second)
	p := &Plan{Prop: "C09", Family: "states", Seed: seed, Start: start}
	n := rng.Range(2, 4)
	cfg := &Config{Route: &Route{Receiver: "r0"}, Receivers: []Receiver{{Name: "r0", Webhooks: []Webhook{{SendResolved: true}}}}}
	p.Configs = []*Config{cfg}
	for i := 0; i < n; i++ {
		p.Insts = append(p.Insts, InstPlan{Name: string(rune('a' + i))})
	}
	horizon := rng.Dur(10*time.Minute, 40*time.Minute)
	p.Horizon = horizon
	ret := Pick(rng, []Dur{2 * time.Hour, 2 * time.Hour, 3 * time.Minute, 10 * time.Minute})
	p.Opts = InstOpts{Retention: ret, MaintenanceInterval: rng.Dur(30*time.Second, 5*time.Minute) + 13, AlertGCInterval: 30*time.Minute + 29, DispatchMaintenance: 30*time.Second + 7}
	p.LabelSets = genLabelSets(rng.Fork("sets"), 5)
	b := &planBuilder{p: p, used: map[Dur]bool{}}
	// crafted versions
	nk := rng.Range(1, 4)
	for k := 0; k < nk; k++ {
		key := fmt.Sprintf("k%d", k)
		sets := [][]M{Pick(rng, c02MatcherSets)}
		if rng.Bool(0.3) {
			sets = append(sets, Pick(rng, c02MatcherSets))
		}
		base := rng.Dur(0, horizon/3)
		st := base - rng.Dur(0, time.Minute)
		nv := rng.Range(2, 6)
		for v := 0; v < nv; v++ {
			upd := base + Dur(v)*rng.Dur(time.Second, horizon/12) + Dur(v)*time.Millisecond
			ver := PVer{Key: key, Ver: v, UpdatedOff: upd, StartOff: st, Sets: sets, Comment: fmt.Sprintf("%s.v%d", key, v)}
			switch rng.Intn(4) {
			case 0: // expire: ends when it was updated
				ver.EndOff = upd
			case 1: // shorten
				ver.EndOff = upd + rng.Dur(10*time.Second, 3*time.Minute)
			default: // extend
				ver.EndOff = upd + rng.Dur(3*time.Minute, horizon)
			}
			if ver.EndOff < ver.StartOff {
				ver.StartOff = ver.EndOff
			}
			p.Vers = append(p.Vers, ver)
			// deliveries: each replica gets it 0-3 times, at or after its update instant
			for i := 0; i < n; i++ {
				for c := rng.Intn(4); c > 0; c-- {
					at := upd + rng.Dur(time.Millisecond, horizon/2)
					if at >= horizon-time.Second {
						continue
					}
					ents := []PEntry{{Key: key, Ver: v}}
					if rng.Bool(0.3) && len(p.Vers) > 1 {
						// a real message never carries two versions of one id
						if o := p.Vers[rng.Intn(len(p.Vers))]; o.Key != key {
							ents = append(ents, PEntry{Key: o.Key, Ver: o.Ver})
						}
					}
					b.add(Action{At: at, Kind: "deliver", Inst: i, Entries: ents})
				}
			}
		}
	}
	// local API edits, relayed to the others with loss, duplication and delay
	for c := rng.Range(0, 4); c > 0; c-- {
		key := fmt.Sprintf("s%d", c)
		i := rng.Intn(n)
		at := rng.Dur(time.Second, horizon*2/3)
		ms := Pick(rng, c02MatcherSets)
		b.add(Action{At: at, Kind: "silence", Inst: i, Sil: &PSilence{Key: key, Matchers: ms, EndOff: rng.Dur(time.Minute, 20*time.Minute)}})
		for f := rng.Range(0, 3); f > 0; f-- {
			t := at + rng.Dur(5*time.Second, 10*time.Minute)
			if t >= horizon-time.Second {
				continue
			}
			if rng.Bool(0.5) {
				b.add(Action{At: t, Kind: "silence", Inst: i, Sil: &PSilence{Key: key, EditOf: key, Matchers: ms, KeepStart: true, EndOff: rng.Dur(30*time.Second, 15*time.Minute)}})
			} else {
				b.add(Action{At: t, Kind: "expire", Inst: i, SilKey: key})
			}
		}
	}
	p.SortActions()
	// relays of whatever the local operations broadcast
	var relays []Action
	for idx, a := range p.Actions {
		if a.Kind != "silence" && a.Kind != "expire" {
			continue
		}
		for j := 0; j < n; j++ {
			if j == a.Inst || rng.Bool(0.3) {
				continue // lost
			}
			for c := rng.Range(1, 2); c > 0; c-- {
				t := a.At + rng.Dur(2*time.Millisecond, 5*time.Minute)
				if t < horizon-time.Second {
					r := Action{At: t, Kind: "relay", Inst: j, N: idx}
					if rng.Bool(0.3) {
						r.Str = "batch"
					}
					relays = append(relays, r)
				}
			}
		}
	}
	// relay actions refer to source actions by index: keep the indexes stable by
	// appending relays after sorting, then re-sorting stably and remapping
	type tagged struct {
		a   Action
		old int
	}
	var all []tagged
	for i, a := range p.Actions {
		all = append(all, tagged{a, i})
	}
	for _, r := range relays {
		all = append(all, tagged{r, -1})
	}
	for c := rng.Range(0, 3); c > 0; c-- {
		all = append(all, tagged{Action{At: rng.Dur(time.Minute, horizon-time.Second), Kind: "pushpull", Inst: rng.Intn(n), N: rng.Intn(n)}, -1})
	}
	for c := rng.Range(2, 8); c > 0; c-- {
		all = append(all, tagged{Action{At: rng.Dur(time.Minute, horizon-time.Second), Kind: Pick(rng, []string{"silence_gc", "probe_mutes", "probe_mutes"}), Inst: rng.Intn(n)}, -1})
	}
	sort.SliceStable(all, func(i, j int) bool { return all[i].a.At < all[j].a.At })
	remap := map[int]int{}
	for ni, t := range all {
		if t.old >= 0 {
			remap[t.old] = ni
		}
	}
	p.Actions = nil
	for _, t := range all {
		a := t.a
		if a.Kind == "relay" {
			a.N = remap[a.N]
		}
		p.Actions = append(p.Actions, a)
	}
	if ra := rng.Fork("autoholds"); ra.Bool(0.3) {
		p.Holds = append(p.Holds, AutoHolds(ra, AutoSitesSilence[:2], ra.Range(1, 2), 24, 50*time.Millisecond, 60*time.Second)...)
	}
	return p
}

func init() {
	Register(&Prop{
		ID: "C09", Level: "exploration", Gen: c09Gen,
		Check:       func(p *Plan, r *RunResult) *Verdict { return &Verdict{} },
		Rule:        "seeded run on 2-4 real instances (clustering off, broadcast functions recorded): 1-4 silence ids with 2-6 crafted versions each (distinct update times; extend/shorten/expire; one or two matcher sets) delivered 0-3 times per replica in independent orders, singly or batched with other versions, from their update instant on (so some arrive past their retention when retention is 3 or 10 minutes, never when it is 2 hours); 0-4 silences created/edited/expired through one replica's API whose recorded broadcasts are relayed to the others with loss, delay, duplication and batching; explicit GC, maintenance GC, Mutes probes, 0-3 mid-run and two final all-pairs full-state exchanges (MarshalBinary -> Merge). Non-trivial: a merge was checked or convergence evaluated; distinct by abstract trace plus merge mix.",
		Real:        []string{"app.New wiring (clustering off)", "silence.Silences (Set, expire, Merge, MarshalBinary, GC, Query)", "silence.Silencer", "api/v2 silence handlers"},
		Stub:        []string{"clock (synctest)", "gossip (recorded broadcasts and crafted protobuf handed to Merge; full-state exchange by MarshalBinary+Merge)", "snapshot disk (simfs)"},
		Assumptions: []string{"relay references are by source action; if shrinking removes the source the relay delivers nothing", "oversized payloads (>= 700 bytes) are not required to be re-broadcast"},
	})
}
