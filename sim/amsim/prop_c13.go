package amsim

import (
	"fmt"
	"sort"
	"time"
)

// C13 — alert ingestion: defaults, merge and visibility follow the API contract.
//
// Workload: per label set a history of POSTs (with/without start and end,
// overlapping, disjoint, out of order, already resolved, re-fired), batches that
// mix valid and invalid alerts, empty-valued labels; provider GC interval is a
// run parameter; a GET /api/v2/alerts follows every POST (1 ms later) and more
// are sprinkled in between.
//
// Oracle: (1) transition: after each POST the observed (start, end, updatedAt,
// annotations) must be an outcome the contract allows given the previously
// observed stored version and the submission; (2) stability: between POSTs an
// alert is listed exactly while its end time has not passed, with unchanged
// values (nothing with a future end is ever garbage collected or altered);
// (3) receivers = reference routing; status active (no silences/inhibitions here).

type c13Obs struct {
	Start, End, Updated time.Time
	Timeout             bool
	Ann                 map[string]string
	alts                []*c13Obs // other outcomes the contract allows (touching ranges, collected predecessor)
}

func c13Gen(seed uint64, tier string) *Plan {
	rng := NewRng(seed)
	start := BubbleEpoch.Add(48*time.Hour + Dur(rng.Intn(86400*200))*time.Second)
	p := &Plan{Prop: "C13", Family: "single", Seed: seed, Start: start}
	k := DefaultKnobs()
	receivers := []string{"r0"}
	cfg := &Config{ResolveTimeout: rng.Dur(time.Minute, 6*time.Minute)}
	rc := rng.Fork("cfg")
	cfg.Route = genRoute(rc, &k, 0, &receivers, nil)
	cfg.Route.GroupWait, cfg.Route.GroupInterval, cfg.Route.RepeatInterval = 30*time.Second, 5*time.Minute, 4*time.Hour
	fixRepeat(cfg.Route)
	for _, n := range receivers {
		cfg.Receivers = append(cfg.Receivers, Receiver{Name: n, Webhooks: []Webhook{{SendResolved: true}}})
	}
	p.Configs = []*Config{cfg}
	p.Insts = []InstPlan{{Name: "a"}}
	p.RecvJitter = 900 * time.Microsecond
	p.Opts = InstOpts{AlertGCInterval: rng.Dur(5*time.Second, 4*time.Minute) + 29, DispatchMaintenance: 30*time.Second + 7, MaintenanceInterval: 15*time.Minute + 13}
	sets := genLabelSets(rng.Fork("sets"), rng.Range(1, 4))
	b := &planBuilder{p: p, used: map[Dur]bool{}}
	t := rng.Dur(time.Second, 30*time.Second)
	n := rng.Range(6, 40)
	if tier == "thorough" {
		n = rng.Range(10, 120)
	}
	offs := []Dur{-10 * time.Minute, -3 * time.Minute, -30 * time.Second, -time.Second, 0, time.Second, 20 * time.Second, 2 * time.Minute, 7 * time.Minute, 20 * time.Minute}
	for i := 0; i < n; i++ {
		cnt := 1
		if rng.Bool(0.25) {
			cnt = rng.Range(2, 4)
		}
		var alerts []PAlert
		for j := 0; j < cnt; j++ {
			ls := map[string]string{}
			for kk, vv := range Pick(rng, sets) {
				ls[kk] = vv
			}
			a := PAlert{Labels: ls, Annotations: map[string]string{"v": fmt.Sprintf("%d.%d", i, j)}}
			switch rng.Intn(10) {
			case 0:
				a.Labels = map[string]string{} // invalid: no labels
			case 1:
				a.Labels["empty"] = "" // empty-valued label is dropped
			}
			if rng.Bool(0.45) {
				o := Pick(rng, offs[:6])
				a.StartOff = &o
			}
			if rng.Bool(0.55) {
				o := Pick(rng, offs)
				a.EndOff = &o
			}
			alerts = append(alerts, a)
		}
		at := b.add(Action{At: t, Kind: "post", Alerts: alerts})
		b.add(Action{At: at + time.Millisecond, Kind: "get_alerts", Str: "after-post"})
		if rng.Bool(0.5) {
			b.add(Action{At: at + rng.Dur(2*time.Millisecond, 6*time.Minute), Kind: "get_alerts"})
		}
		gap := Pick(rng, []Dur{3 * time.Millisecond, time.Second, 10 * time.Second, time.Minute, 3 * time.Minute, 8 * time.Minute})
		t = at + gap + rng.Dur(0, gap)
	}
	p.SortActions()
	p.Horizon = p.Actions[len(p.Actions)-1].At + rng.Dur(time.Second, 10*time.Minute)
	b.add(Action{At: p.Horizon - time.Millisecond, Kind: "get_alerts"})
	p.SortActions()
	if ra := rng.Fork("autoholds"); ra.Bool(0.3) {
		p.Holds = append(p.Holds, AutoHolds(ra, []string{"mem.Alerts.gcAlerts", "store.Alerts.gcAlerts", "mem.Alerts.gcListeners"}, ra.Range(1, 2), 16, 50*time.Millisecond, 30*time.Second)...)
	}
	return p
}

func sameTime(a, b time.Time) bool { return a.Equal(b) }

func c13Check(p *Plan, r *RunResult) *Verdict {
	v := &Verdict{}
	cfg := p.Configs[0]
	root := buildRoutes(cfg.Route, nil, "0")
	rt := cfg.ResolveTimeout
	stored := map[string]*c13Obs{} // last observed stored version per label key (may since have been collected)
	labelsOf := map[string]map[string]string{}
	var lastPost *APIRec
	for _, rec := range r.H.API {
		if rec.Action < 0 {
			continue
		}
		a := &p.Actions[rec.Action]
		now := p.Start.Add(rec.T)
		switch a.Kind {
		case "post":
			lastPost = rec
			// compute acceptable outcomes per label key, submissions of one batch applied in order
			for _, al := range a.Alerts {
				ls := cleanLabels(al.Labels)
				if len(ls) == 0 {
					continue
				}
				var s, e time.Time
				hasS, hasE := al.StartOff != nil, al.EndOff != nil
				if hasE {
					e = now.Add(*al.EndOff)
				}
				if hasS {
					s = now.Add(*al.StartOff)
				}
				if !hasS {
					if hasE {
						s = e
					} else {
						s = now
					}
				}
				timeout := !hasE
				if !hasE {
					e = now.Add(rt)
				}
				if e.Before(s) {
					continue // invalid: end before start
				}
				lk := labelsKey(ls)
				labelsOf[lk] = ls
				nw := &c13Obs{Start: s, End: e, Updated: now, Timeout: timeout, Ann: al.Annotations}
				prevSet := stored[lk]
				if prevSet == nil {
					stored[lk] = nw
					continue
				}
				// every version the store may hold is carried through the submission
				var outs []*c13Obs
				add := func(o *c13Obs) {
					for _, x := range outs {
						if x.Start.Equal(o.Start) && x.End.Equal(o.End) && x.Timeout == o.Timeout {
							return
						}
					}
					if len(outs) < 32 {
						outs = append(outs, o)
					}
				}
				for _, prev := range append([]*c13Obs{prevSet}, prevSet.alts...) {
					R := &c13Obs{Start: s, End: e, Updated: now, Timeout: timeout, Ann: al.Annotations}
					M := &c13Obs{Start: s, End: e, Updated: now, Timeout: timeout, Ann: al.Annotations}
					if prev.Start.Before(s) {
						M.Start = prev.Start
					}
					if !e.After(now) {
						if !prev.End.After(now) && prev.End.After(e) {
							M.End = prev.End
						}
					} else if prev.End.After(e) && !prev.Timeout {
						M.End = prev.End
					}
					inside := func(x time.Time) (strict, touching bool) {
						strict = x.After(prev.Start) && x.Before(prev.End)
						touching = x.Equal(prev.Start) || x.Equal(prev.End)
						return
					}
					es, et := inside(e)
					ss, st := inside(s)
					switch {
					case es || ss:
						add(M)
						if et || st || !prev.End.After(now) {
							// touching ranges, or a resolved predecessor that may already have been collected
							add(R)
						}
					default:
						add(R)
						if et || st {
							add(M)
						}
					}
				}
				outs[0].alts = outs[1:]
				stored[lk] = outs[0]
			}
		case "get_alerts":
			if rec.Code != 200 {
				v.Fail("C13", "C13/get-failed", rec.T, "GET /api/v2/alerts returned %d", rec.Code)
				continue
			}
			var got []APIAlert
			if jsonUnmarshal(rec.Resp, &got) != nil {
				v.Fail("C13", "C13/get-undecodable", rec.T, "GET /api/v2/alerts returned an undecodable body")
				continue
			}
			byKey := map[string]*APIAlert{}
			for i := range got {
				byKey[labelsKey(got[i].Labels)] = &got[i]
			}
			afterPost := a.Str == "after-post" && lastPost != nil
			for _, lk := range sortedKeys(stored) {
				st := stored[lk]
				g := byKey[lk]
				cands := append([]*c13Obs{st}, st.alts...)
				// visibility: listed exactly while the end time has not passed
				var match *c13Obs
				anyVisible, anyHidden := false, false
				for _, c := range cands {
					if c.End.After(now) || c.End.Equal(now) {
						anyVisible = true
					}
					if !c.End.After(now) {
						anyHidden = true
					}
					if g != nil && sameTime(g.StartsAt, c.Start) && sameTime(g.EndsAt, c.End) {
						match = c
					}
				}
				v.Ob("visibility-and-merged-times")
				if g == nil {
					if !anyHidden {
						what := "C13/unresolved-alert-missing"
						if afterPost {
							what = "C13/valid-alert-not-stored"
						}
						v.Fail("C13", what, rec.T, "alert %s with end time %v (now %v) is not returned by GET /api/v2/alerts", lk, st.End.Sub(p.Start), rec.T)
					}
					continue
				}
				if !anyVisible {
					v.Fail("C13", "C13/resolved-alert-listed", rec.T, "alert %s is returned although its end time %v has passed (now %v)", lk, st.End.Sub(p.Start), rec.T)
					continue
				}
				if match == nil {
					sig := "C13/merged-times-wrong"
					if !sameTime(g.StartsAt, st.Start) && sameTime(g.EndsAt, st.End) {
						sig = "C13/start-time-wrong"
					} else if sameTime(g.StartsAt, st.Start) {
						sig = "C13/end-time-wrong"
					}
					v.Fail("C13", sig, rec.T, "alert %s is returned with start %v end %v; the contract gives start %v end %v%s", lk, g.StartsAt.Sub(p.Start), g.EndsAt.Sub(p.Start), st.Start.Sub(p.Start), st.End.Sub(p.Start), altText(p, st))
					continue
				}
				// settle on what was observed
				if match != st {
					match.alts = nil
					stored[lk] = match
					st = match
				} else {
					st.alts = nil
				}
				if !sameTime(g.UpdatedAt, st.Updated) {
					v.Fail("C13", "C13/updatedAt-wrong", rec.T, "alert %s has updatedAt %v, last accepted submission was at %v", lk, g.UpdatedAt.Sub(p.Start), st.Updated.Sub(p.Start))
				}
				wantAnn := st.Ann
				if wantAnn == nil {
					wantAnn = map[string]string{}
				}
				if !sameLabels(g.Annotations, wantAnn) {
					v.Fail("C13", "C13/annotations-wrong", rec.T, "alert %s has annotations %v, last accepted submission had %v", lk, g.Annotations, wantAnn)
				}
				var want []string
				for _, x := range root.Match(labelsOf[lk]) {
					want = append(want, x.Receiver)
				}
				sort.Strings(want)
				v.Ob("receivers-and-status")
				if fmt.Sprint(g.ReceiverNames()) != fmt.Sprint(want) {
					v.Fail("C13", "C13/receivers-wrong", rec.T, "alert %s lists receivers %v, routing selects %v", lk, g.ReceiverNames(), want)
				}
				if g.Status.State != "active" || len(g.Status.SilencedBy) > 0 || len(g.Status.InhibitedBy) > 0 {
					v.Fail("C13", "C13/status-wrong", rec.T, "alert %s has status %+v without any silence or inhibition rule", lk, g.Status)
				}
			}
			for lk := range byKey {
				if _, ok := stored[lk]; !ok {
					v.Fail("C13", "C13/unknown-alert-listed", rec.T, "GET returns alert %s that was never validly submitted", lk)
				}
			}
		}
	}
	return v
}

func altText(p *Plan, st *c13Obs) string {
	s := ""
	for _, a := range st.alts {
		s += fmt.Sprintf(" or start %v end %v", a.Start.Sub(p.Start), a.End.Sub(p.Start))
	}
	return s
}

func init() {
	Register(&Prop{
		ID: "C13", Level: "exploration", Gen: c13Gen, Check: c13Check,
		Rule:        "seeded history of 6-40 (thorough 10-120) POST /api/v2/alerts calls over 1-4 label sets: start/end present or omitted with offsets from -10 min to +20 min (overlapping, disjoint, out of order, already resolved, re-fired), batches of 1-4 alerts mixing valid and invalid ones, empty-valued labels, gaps from 3 ms to 16 min, provider GC interval 5 s-4 min, a GET after every POST and at random instants. Non-trivial: at least one alert was compared with the contract; distinct by abstract trace.",
		Real:        []string{"app.New wiring", "api/v2 postAlertsHandler/getAlertsHandler", "provider/mem (Put, merge, GC)", "store", "alert.Merge/Validate", "dispatch routing (receivers field)"},
		Stub:        []string{"clock (synctest)", "client (in-memory HTTP through the real mux)"},
		Assumptions: []string{"where a new range only touches the stored one (equal endpoints) both the merged and the replaced outcome are accepted", "a resolved stored version may or may not have been garbage collected before an overlapping re-submission; both outcomes are accepted"},
	})
}
