package amsim

import (
	"bytes"
	"fmt"
	"sort"
	"strconv"
	"strings"
	"time"

	"google.golang.org/protobuf/encoding/protodelim"
	"google.golang.org/protobuf/types/known/timestamppb"

	"github.com/prometheus/alertmanager/nflog"
	npb "github.com/prometheus/alertmanager/nflog/nflogpb"
)

// C10 — replicated notification log converges and never goes backwards.
//
// 1-3 real instances (clustering off, broadcast recorded). Crafted entries over a
// key space of 2 groups x 2 integrations, with distinct timestamps and typed
// receiver data, are handed to Log.Merge in independent orders, duplicated and
// batched, interleaved with local Log calls (also while an entry stamped in the
// local future is held), explicit and maintenance GC, graceful restarts (snapshot
// reload), full-state exchanges. A reference log (newest unexpired timestamp wins)
// is stepped alongside and compared with Log.Query after every operation.

type nfEntry struct {
	TS, Expires time.Time
	Firing      []uint64
	Resolved    []uint64
	Data        map[string]string
	// Alt: what the log holds instead if this (expired) entry was already collected.
	Alt *nfEntry
}

type c10State struct {
	model  []map[string]*nfEntry // per replica: key -> entry
	bcasts int
	wire   [][]byte
}

func c10st(w *World) *c10State {
	if w.Scratch == nil {
		w.Scratch = map[string]any{}
	}
	st, _ := w.Scratch["c10"].(*c10State)
	if st == nil {
		st = &c10State{}
		for range w.Insts {
			st.model = append(st.model, map[string]*nfEntry{})
		}
		w.Scratch["c10"] = st
	}
	return st
}

// keys look like "g1/r0/1": group key, receiver name, integration index.
func c10Key(k string) (gkey string, r *npb.Receiver) {
	p := strings.Split(k, "/")
	idx, _ := strconv.Atoi(p[2])
	return "{}:{g=\"" + p[0] + "\"}", &npb.Receiver{GroupName: p[1], Integration: "webhook", Idx: uint32(idx)}
}

func dataValue(s string) *npb.ReceiverDataValue {
	switch {
	case strings.HasPrefix(s, "i:"):
		n, _ := strconv.ParseInt(s[2:], 10, 64)
		return &npb.ReceiverDataValue{Value: &npb.ReceiverDataValue_IntVal{IntVal: n}}
	case strings.HasPrefix(s, "f:"):
		f, _ := strconv.ParseFloat(s[2:], 64)
		return &npb.ReceiverDataValue{Value: &npb.ReceiverDataValue_DoubleVal{DoubleVal: f}}
	default:
		return &npb.ReceiverDataValue{Value: &npb.ReceiverDataValue_StrVal{StrVal: strings.TrimPrefix(s, "s:")}}
	}
}

func dataString(v *npb.ReceiverDataValue) string {
	switch x := v.Value.(type) {
	case *npb.ReceiverDataValue_IntVal:
		return "i:" + strconv.FormatInt(x.IntVal, 10)
	case *npb.ReceiverDataValue_DoubleVal:
		return "f:" + strconv.FormatFloat(x.DoubleVal, 'g', -1, 64)
	case *npb.ReceiverDataValue_StrVal:
		return "s:" + x.StrVal
	}
	return "?"
}

func (w *World) c10Mesh(v *PVer) *npb.MeshEntry {
	gkey, r := c10Key(v.Key)
	e := &npb.Entry{GroupKey: []byte(gkey), Receiver: r, Timestamp: timestamppb.New(w.Plan.Start.Add(v.UpdatedOff)), FiringAlerts: v.Firing, ResolvedAlerts: v.Resolved}
	if len(v.Data) > 0 {
		e.ReceiverData = map[string]*npb.ReceiverDataValue{}
		for k, s := range v.Data {
			e.ReceiverData[k] = dataValue(s)
		}
	}
	return &npb.MeshEntry{Entry: e, ExpiresAt: timestamppb.New(w.Plan.Start.Add(v.ExpiresOff))}
}

func marshalEntries(es ...*npb.MeshEntry) []byte {
	var buf bytes.Buffer
	for _, e := range es {
		protodelim.MarshalTo(&buf, e)
	}
	return buf.Bytes()
}

func decodeEntries(b []byte) ([]*npb.MeshEntry, error) {
	var out []*npb.MeshEntry
	rd := newDelimReader(bytes.NewReader(b))
	for {
		var m npb.MeshEntry
		err := rd.next(&m)
		if err == errEOF {
			return out, nil
		}
		if err != nil {
			return out, err
		}
		out = append(out, &m)
	}
}

func fromMesh(m *npb.MeshEntry) (string, *nfEntry) {
	e := m.Entry
	key := fmt.Sprintf("%s|%s/%s/%d", string(e.GroupKey), e.Receiver.GroupName, e.Receiver.Integration, e.Receiver.Idx)
	n := &nfEntry{TS: e.Timestamp.AsTime(), Expires: m.ExpiresAt.AsTime(), Firing: e.FiringAlerts, Resolved: e.ResolvedAlerts, Data: map[string]string{}}
	for k, v := range e.ReceiverData {
		n.Data[k] = dataString(v)
	}
	return key, n
}

func sameEntry(a, b *nfEntry) bool {
	return a.TS.Equal(b.TS) && fmt.Sprint(a.Firing) == fmt.Sprint(b.Firing) && fmt.Sprint(a.Resolved) == fmt.Sprint(b.Resolved) && sameLabels(a.Data, b.Data)
}

// c10Apply steps the reference log of replica i with delivered entries.
func (w *World) c10Deliver(i int, b []byte, what string) {
	in := w.Insts[i]
	if in.App == nil || len(b) == 0 {
		return
	}
	st := c10st(w)
	now := time.Now()
	msgs, err := decodeEntries(b)
	if err != nil {
		return
	}
	changedWant := 0
	for _, m := range msgs {
		key, e := fromMesh(m)
		if e.Expires.Before(now) {
			continue // expired: never accepted
		}
		prev := st.model[i][key]
		if prev == nil || prev.TS.Before(e.TS) {
			st.model[i][key] = e
			changedWant++
		} else if prev.TS.Equal(e.TS) && !sameEntry(prev, e) {
			prev.Alt = e // two different entries with one timestamp: either may be kept
			changedWant = -1000
		} else if !prev.Expires.After(now) && prev.TS.After(e.TS) {
			// the stored entry has expired and may have been collected by a maintenance
			// GC already, in which case the older but unexpired one is accepted
			prev.Alt = e
			changedWant = -1000 // broadcast rule not judged
		}
	}
	st.bcasts = 0
	if err := in.Int.Nflog.Merge(b); err != nil {
		w.H.AddEvent("nf-merge-error", in.Name, err.Error())
		return
	}
	w.H.Fire("nf:" + strings.SplitN(what, " ", 2)[0])
	w.Online.Ob("merge-broadcast-rule")
	if changedWant < 0 {
		w.c10Compare(i, what)
		return
	}
	if changedWant == 0 && st.bcasts > 0 {
		w.Online.Fail("C10", "C10/known-data-regossiped", w.H.now(), "replica %s: merging entries that are all older, equal or expired triggered %d broadcast(s) (%s)", in.Name, st.bcasts, what)
	}
	if changedWant > 0 && st.bcasts == 0 && len(b) < 700 {
		w.Online.Fail("C10", "C10/accepted-entry-not-regossiped", w.H.now(), "replica %s: a merge that brought %d newer entr(ies) broadcast nothing (%s)", in.Name, changedWant, what)
	}
	w.c10Compare(i, what)
}

// c10Compare queries every key of replica i and compares with the reference log.
func (w *World) c10Compare(i int, after string) {
	in := w.Insts[i]
	if in.App == nil {
		return
	}
	st := c10st(w)
	now := time.Now()
	keys := map[string]bool{}
	for _, v := range w.Plan.Vers {
		gk, r := c10Key(v.Key)
		keys[fmt.Sprintf("%s|%s/%s/%d", gk, r.GroupName, r.Integration, r.Idx)] = true
	}
	for k := range st.model[i] {
		keys[k] = true
	}
	ks := make([]string, 0, len(keys))
	for k := range keys {
		ks = append(ks, k)
	}
	sort.Strings(ks)
	for _, key := range ks {
		parts := strings.SplitN(key, "|", 2)
		rp := strings.Split(parts[1], "/")
		idx, _ := strconv.Atoi(rp[2])
		recv := &npb.Receiver{GroupName: rp[0], Integration: rp[1], Idx: uint32(idx)}
		es, err := in.Int.Nflog.Query(nflog.QGroupKey(parts[0]), nflog.QReceiver(recv))
		want := st.model[i][key]
		w.Online.Ob("query-returns-newest-unexpired-entry")
		var got *nfEntry
		if err == nil && len(es) == 1 {
			_, got = fromMesh(&npb.MeshEntry{Entry: es[0], ExpiresAt: timestamppb.New(time.Time{})})
		} else if err != nil && err != nflog.ErrNotFound {
			w.Online.Fail("C10", "C10/query-error", w.H.now(), "replica %s: Query(%s) failed: %v", in.Name, key, err)
			continue
		}
		switch {
		case want == nil && got != nil:
			w.Online.Fail("C10", "C10/unknown-entry-returned", w.H.now(), "replica %s: Query(%s) returns an entry stamped %v that the reference log does not hold (after %s)", in.Name, key, got.TS.Sub(w.Plan.Start), after)
		case want != nil && got == nil:
			if !want.Expires.After(now) {
				delete(st.model[i], key) // expired: collected, fine
				continue
			}
			w.Online.Fail("C10", "C10/unexpired-entry-lost", w.H.now(), "replica %s: Query(%s) finds nothing; the reference log holds the entry stamped %v, expiring %v (after %s)", in.Name, key, want.TS.Sub(w.Plan.Start), want.Expires.Sub(w.Plan.Start), after)
		case want != nil && got != nil:
			if want.Alt != nil && sameEntry(want.Alt, got) {
				st.model[i][key] = want.Alt
				continue
			}
			if !sameEntry(want, got) {
				sig := "C10/wrong-entry-returned"
				if got.TS.Before(want.TS) {
					sig = "C10/older-entry-instead-of-newer"
				} else if got.TS.Equal(want.TS) {
					sig = "C10/entry-content-changed"
				}
				w.Online.Fail("C10", sig, w.H.now(), "replica %s: Query(%s) returns the entry stamped %v firing %v resolved %v data %v; the newest unexpired one logged or received is stamped %v firing %v resolved %v data %v (after %s)", in.Name, key, got.TS.Sub(w.Plan.Start), got.Firing, got.Resolved, got.Data, want.TS.Sub(w.Plan.Start), want.Firing, want.Resolved, want.Data, after)
			}
		}
	}
}

func init() {
	setupHooks["C10"] = func(w *World) {
		w.OnStart = func(i int) {
			w.Insts[i].Int.Nflog.SetBroadcast(func(b []byte) {
				st := c10st(w)
				st.bcasts++
				st.wire = append(st.wire, append([]byte(nil), b...))
			})
		}
	}
	RegisterAction("nf_deliver", func(w *World, idx int, a *Action) {
		var ms []*npb.MeshEntry
		for _, e := range a.Entries {
			for k := range w.Plan.Vers {
				if w.Plan.Vers[k].Key == e.Key && w.Plan.Vers[k].Ver == e.Ver {
					ms = append(ms, w.c10Mesh(&w.Plan.Vers[k]))
				}
			}
		}
		w.c10Deliver(a.Inst, marshalEntries(ms...), fmt.Sprintf("deliver %v", a.Entries))
	})
	RegisterAction("nf_log", func(w *World, idx int, a *Action) {
		in := w.Insts[a.Inst]
		if in.App == nil {
			return
		}
		st := c10st(w)
		now := time.Now()
		gkey, r := c10Key(a.Str)
		key := fmt.Sprintf("%s|%s/%s/%d", gkey, r.GroupName, r.Integration, r.Idx)
		store := nflog.NewStore(nil)
		data := map[string]string{}
		for k, s := range a.Labels {
			data[k] = s
			switch {
			case strings.HasPrefix(s, "i:"):
				n, _ := strconv.ParseInt(s[2:], 10, 64)
				store.SetInt(k, n)
			case strings.HasPrefix(s, "f:"):
				f, _ := strconv.ParseFloat(s[2:], 64)
				store.SetFloat(k, f)
			default:
				store.SetStr(k, strings.TrimPrefix(s, "s:"))
			}
		}
		// a.N picks one of a few alert sets, so repeat notifications with an identical set occur
		firing := []uint64{uint64(a.N) + 1000, 7}
		resolved := []uint64{uint64(a.N) + 2000}
		// reference: refuse to overwrite an entry from the future; expiry min(retention, expiry)
		prev := st.model[a.Inst][key]
		ret := w.retention()
		exp := ret
		if a.D > 0 && ret > a.D {
			exp = a.D
		}
		if prev == nil || !prev.TS.After(now) {
			if prev != nil && prev.TS.Equal(now) {
				return // same instant as the stored entry: order undefined, skip the call
			}
			st.model[a.Inst][key] = &nfEntry{TS: now, Expires: now.Add(exp), Firing: firing, Resolved: resolved, Data: data}
		} else {
			w.H.Probe("local-log-refused-by-future-entry")
		}
		if err := in.Int.Nflog.Log(r, gkey, firing, resolved, store, a.D); err != nil {
			w.Online.Fail("C10", "C10/log-error", w.H.now(), "Log failed: %v", err)
		}
		w.H.Fire("nf:log")
		w.c10Compare(a.Inst, "local Log of "+a.Str)
	})
	RegisterAction("nf_gc", func(w *World, idx int, a *Action) {
		in := w.Insts[a.Inst]
		if in.App == nil {
			return
		}
		st := c10st(w)
		now := time.Now()
		in.Int.Nflog.GC()
		for k, e := range st.model[a.Inst] {
			if !e.Expires.After(now) {
				delete(st.model[a.Inst], k)
				w.H.Probe("entry-collected-after-expiry")
			}
		}
		w.H.Fire("nf:gc")
		// after a GC nothing expired may be returned
		for _, v := range w.Plan.Vers {
			gk, r := c10Key(v.Key)
			if es, err := in.Int.Nflog.Query(nflog.QGroupKey(gk), nflog.QReceiver(r)); err == nil && len(es) == 1 {
				key := fmt.Sprintf("%s|%s/%s/%d", gk, r.GroupName, r.Integration, r.Idx)
				if st.model[a.Inst][key] == nil {
					w.Online.Fail("C10", "C10/expired-entry-survives-gc", w.H.now(), "replica %s: after GC Query(%s) still returns an entry stamped %v although every entry for it has expired", in.Name, key, es[0].Timestamp.AsTime().Sub(w.Plan.Start))
				}
			}
		}
		w.c10Compare(a.Inst, "GC")
	})
	RegisterAction("nf_query", func(w *World, idx int, a *Action) { w.c10Compare(a.Inst, "nothing") })
	RegisterAction("nf_pushpull", func(w *World, idx int, a *Action) { w.c10PushPull(a.Inst, a.N) })
	finalHooks["C10"] = func(w *World) {
		n := len(w.Insts)
		for round := 0; round < 2; round++ {
			for i := 0; i < n; i++ {
				for j := 0; j < n; j++ {
					if i != j {
						w.c10PushPull(i, j)
					}
				}
			}
		}
		// replicas that have exchanged everything agree on every unexpired key
		now := time.Now()
		type rec struct {
			e   *nfEntry
			exp time.Time
		}
		views := make([]map[string]rec, n)
		for i := 0; i < n; i++ {
			views[i] = map[string]rec{}
			if w.Insts[i].App == nil {
				continue
			}
			if raw, err := w.Insts[i].Int.Nflog.MarshalBinary(); err == nil {
				if ms, err := decodeEntries(raw); err == nil {
					for _, m := range ms {
						k, e := fromMesh(m)
						views[i][k] = rec{e, m.ExpiresAt.AsTime()}
					}
				}
			}
		}
		// the newest entry any replica holds for a key, if still unexpired, must be
		// held by all of them (a newer entry that has expired supersedes older ones
		// for good, so nothing is demanded then)
		newest := map[string]rec{}
		for i := 0; i < n; i++ {
			for k, r := range views[i] {
				if cur, ok := newest[k]; !ok || r.e.TS.After(cur.e.TS) {
					newest[k] = r
				}
			}
		}
		for k, top := range newest {
			if !top.exp.After(now.Add(time.Second)) {
				continue
			}
			w.Online.Ob("replicas-agree-after-exchange")
			for i := 0; i < n; i++ {
				if w.Insts[i].App == nil {
					continue
				}
				if ri, ok := views[i][k]; !ok || !sameEntry(ri.e, top.e) {
					w.Online.Fail("C10", "C10/replicas-disagree-after-exchange", w.H.now(), "after two all-pairs full-state exchanges replica %s does not hold the newest unexpired entry for %s (stamped %v)", w.Insts[i].Name, k, top.e.TS.Sub(w.Plan.Start))
				}
			}
		}
		for i := 1; i < n; i++ {
			w.c10Compare(i, "final exchange")
		}
		w.c10Compare(0, "final exchange")
	}
}

func (w *World) c10PushPull(i, j int) {
	a, b := w.Insts[i], w.Insts[j]
	if a.App == nil || b.App == nil || i == j {
		return
	}
	sa, e1 := a.Int.Nflog.MarshalBinary()
	sb, e2 := b.Int.Nflog.MarshalBinary()
	if e1 != nil || e2 != nil {
		return
	}
	w.c10Deliver(j, sa, "full-state of "+a.Name)
	w.c10Deliver(i, sb, "full-state of "+b.Name)
}

func c10Gen(seed uint64, tier string) *Plan {
	rng := NewRng(seed)
	start := BubbleEpoch.Add(40*24*time.Hour + Dur(rng.Intn(86400*300))*time.Second)
	p := &Plan{Prop: "C10", Family: "states", Seed: seed, Start: start}
	n := rng.Range(1, 3)
	cfg := &Config{Route: &Route{Receiver: "r0"}, Receivers: []Receiver{{Name: "r0", Webhooks: []Webhook{{SendResolved: true}}}}}
	p.Configs = []*Config{cfg}
	for i := 0; i < n; i++ {
		p.Insts = append(p.Insts, InstPlan{Name: string(rune('a' + i))})
	}
	horizon := rng.Dur(10*time.Minute, 40*time.Minute)
	if tier == "thorough" {
		horizon = rng.Dur(20*time.Minute, 2*time.Hour)
	}
	p.Horizon = horizon
	p.Opts = InstOpts{Retention: Pick(rng, []Dur{2 * time.Hour, 5 * time.Minute, 15 * time.Minute}), MaintenanceInterval: rng.Dur(30*time.Second, 6*time.Minute) + 13, AlertGCInterval: 30*time.Minute + 29, DispatchMaintenance: 30*time.Second + 7}
	b := &planBuilder{p: p, used: map[Dur]bool{}}
	keys := []string{"g0/r0/0", "g0/r0/1", "g1/r0/0", "g1/r0/1"}
	for _, key := range keys[:rng.Range(1, 4)] {
		life := rng.Dur(time.Minute, horizon) // expiry distance, constant per key: newer entries expire later
		nv := rng.Range(2, 7)
		base := rng.Dur(0, horizon/2)
		for v := 0; v < nv; v++ {
			ts := base + Dur(v)*rng.Dur(time.Second, horizon/10) + Dur(v)*time.Millisecond
			if rng.Bool(0.15) {
				ts += rng.Dur(time.Minute, 10*time.Minute) // stamped in the receiver's future when delivered early
			}
			ver := PVer{Key: key, Ver: v, UpdatedOff: ts, ExpiresOff: ts + life, Firing: []uint64{uint64(v) + 1, 99}, Resolved: []uint64{uint64(v) + 50}}
			if rng.Bool(0.5) {
				ver.Data = map[string]string{"n": fmt.Sprintf("i:%d", v*7), "x": fmt.Sprintf("f:%d.5", v), "t": fmt.Sprintf("s:thread-%d", v)}
			}
			p.Vers = append(p.Vers, ver)
			for i := 0; i < n; i++ {
				for c := rng.Intn(4); c > 0; c-- {
					at := base + rng.Dur(time.Millisecond, horizon-base-time.Second)
					ents := []PEntry{{Key: key, Ver: v}}
					if rng.Bool(0.3) && len(p.Vers) > 1 {
						if o := p.Vers[rng.Intn(len(p.Vers))]; o.Key != key {
							ents = append(ents, PEntry{Key: o.Key, Ver: o.Ver})
						}
					}
					b.add(Action{At: at, Kind: "nf_deliver", Inst: i, Entries: ents})
				}
			}
		}
		for c := rng.Range(0, 5); c > 0; c-- {
			a := Action{At: rng.Dur(time.Second, horizon-time.Second), Kind: "nf_log", Inst: rng.Intn(n), Str: key, N: rng.Intn(2), D: Pick(rng, []Dur{0, 2 * time.Minute, 20 * time.Minute, 4 * time.Hour})}
			if rng.Bool(0.5) {
				a.Labels = map[string]string{"n": fmt.Sprintf("i:%d", c), "f": "f:2.25", "s": "s:abc"}
			}
			b.add(a)
		}
	}
	for c := rng.Range(2, 10); c > 0; c-- {
		b.add(Action{At: rng.Dur(time.Second, horizon-time.Second), Kind: Pick(rng, []string{"nf_gc", "nf_query", "nf_query"}), Inst: rng.Intn(n)})
	}
	if n > 1 {
		for c := rng.Range(0, 3); c > 0; c-- {
			b.add(Action{At: rng.Dur(time.Minute, horizon-time.Second), Kind: "nf_pushpull", Inst: rng.Intn(n), N: rng.Intn(n)})
		}
	}
	if rng.Bool(0.3) {
		b.add(Action{At: rng.Dur(time.Minute, horizon-time.Minute), Kind: "restart", Inst: rng.Intn(n), D: rng.Dur(0, 5*time.Second)})
	}
	p.SortActions()
	// one-shot suspensions of the maintenance goroutine (GC, snapshot) right before a
	// critical section, so that the driver's Log/Merge/Query calls land inside them
	if ra := rng.Fork("autoholds"); ra.Bool(0.4) {
		p.Holds = append(p.Holds, AutoHolds(ra, AutoSitesNflog[:2], ra.Range(1, 2), 24, 50*time.Millisecond, 90*time.Second)...)
	}
	return p
}

func init() {
	Register(&Prop{
		ID: "C10", Level: "exploration", Gen: c10Gen,
		Check:       func(p *Plan, r *RunResult) *Verdict { return &Verdict{} },
		Rule:        "seeded run on 1-3 real instances (clustering off, nflog broadcast recorded): 1-4 keys (2 groups x 2 integrations) with 2-7 crafted entries each (distinct timestamps, some stamped minutes in the future, expiry at a per-key distance so that some are expired on arrival, int/float/string receiver data) delivered 0-3 times per replica in independent orders, singly or batched; 0-5 local Log calls per key with expiry 0/2 min/20 min/4 h against retention 5 min/15 min/2 h; explicit and maintenance GC, queries, mid-run and final all-pairs full-state exchanges, optional graceful restart (snapshot reload). After every operation Log.Query of every key is compared with a reference log. Non-trivial: a query was compared; distinct by abstract trace plus operation mix.",
		Real:        []string{"app.New wiring (clustering off)", "nflog.Log (Log, Merge, GC, Query, MarshalBinary, Maintenance, snapshot load)"},
		Stub:        []string{"clock (synctest)", "gossip (crafted protobuf handed to Merge; full-state exchange by MarshalBinary+Merge)", "snapshot disk (simfs)"},
		Assumptions: []string{"crafted entries of one key expire in timestamp order", "an expired entry that has not been garbage collected yet may or may not be returned by Query", "two writes of one key at the same instant are not generated"},
	})
}
