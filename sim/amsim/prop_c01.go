package amsim

import (
	"fmt"
	"sort"
	"time"
)

// C01 — eligible firing alerts reach every routed receiver within the batching bound.
//
// O1: for every alert a, every route r the reference router selects for it and
// every integration i of r's receiver: at every instant t such that (1) a was
// eligible (firing, not silenced, not inhibited, r not time-muted) throughout
// [t-B, t], (2) no fault window of i (and no reload/restart of the instance)
// touches [t-B, t], the latest notification delivered (2xx) to i for a's group
// at or before t exists and lists a as firing.
// B = max(group_wait, group_interval) + flush time-out + slack.

const c01Slack = 6 * time.Second

// latestDelivered returns the latest 2xx notification to integration integ of
// r's receiver, for the group with labels gl on route r, completed at or before t.
func latestDelivered(m *Model, r *MRoute, integ int, gl map[string]string, t Dur) *Notif {
	var best *Notif
	for _, n := range m.H.Notifs {
		if !m.mine(n) || !n.OK() || n.Receiver != r.Receiver || n.Integ != integ || n.Done > t {
			continue
		}
		if !sameLabels(n.GroupLabels, gl) || !m.RoutesOf(n)[r] {
			continue
		}
		if best == nil || n.Done > best.Done {
			best = n
		}
	}
	return best
}

func c01Bound(r *MRoute) Dur {
	b := r.GroupWait
	if r.GroupInterval > b {
		b = r.GroupInterval
	}
	return b + flushTimeout(r.GroupInterval) + c01Slack
}

func checkO1(prop string, m *Model, v *Verdict, extraSlack Dur) {
	h := m.H
	for _, lk := range sortedKeys(m.Labels) {
		ls := m.Labels[lk]
		for _, r := range m.Root.Match(ls) {
			rcv := m.receiver(r.Receiver)
			if rcv == nil {
				continue
			}
			calendar := len(r.Mute) > 0 || len(r.Active) > 0
			B := c01Bound(r) + extraSlack
			spans := m.Intervals(calendar, func(t Dur) bool { return m.Eligible(lk, r, t) })
			gl := r.GroupLabels(ls)
			for _, sp := range spans {
				// inner approximation of the eligibility span
				u, w := sp.From+eps, sp.To-eps
				if w-u <= B {
					continue
				}
				for i := range rcv.Webhooks {
					if rcv.Webhooks[i].MaxAlerts > 0 {
						continue // truncation may legitimately omit the alert (C20 checks the count)
					}
					// candidate instants: u+B, the end, and just after every delivery in between
					if m.Union {
						// cluster: instances may hold different alerts, so "the latest notification"
						// is not a meaningful view; what is owed is that somebody reports the alert
						// as firing within the bound of its becoming eligible
						t := u + B
						if m.FaultIn(r.Receiver, i, u-c01Slack, t) || m.Disturbed(u-c01Slack-m.P.Opts.DispatchStartDelay, t) {
							continue
						}
						v.Ob("O1-eligible-alert-notified-by-some-instance")
						// Told "fires" since the alert became eligible, or within the last
						// repeat_interval before that and not told "resolved" since (an instance
						// that restarted and got the log entry back rightly stays silent).
						var lastFiring, lastResolved Dur = -1, -1
						for _, n := range h.Notifs {
							if !n.OK() || n.Receiver != r.Receiver || n.Integ != i || !sameLabels(n.GroupLabels, gl) || n.Done > t {
								continue
							}
							if n.Firing()[lk] && n.Done > lastFiring {
								lastFiring = n.Done
							}
							if n.Resolved()[lk] && n.Done > lastResolved {
								lastResolved = n.Done
							}
						}
						found := lastFiring >= u-c01Slack || (lastFiring >= 0 && lastFiring >= u-r.RepeatInterval && lastResolved < lastFiring)
						if !found {
							v.Fail(prop, prop+"/eligible-alert-notified-by-no-instance", t, "alert %s held by %s and eligible on route %s (receiver %s/%d, group %s) throughout [%v,%v] was not reported as firing by any instance by %v (bound %v)", lk, m.Name, r.Path, r.Receiver, i, labelsKey(gl), sp.From, sp.To, t, B)
						}
						continue
					}
					cands := []Dur{u + B, w}
					for _, n := range h.Notifs {
						if m.mine(n) && n.Receiver == r.Receiver && n.Integ == i && n.Done > u+B && n.Done < w {
							cands = append(cands, n.Done+time.Millisecond)
						}
					}
					sort.Slice(cands, func(a, b int) bool { return cands[a] < cands[b] })
					for _, t := range cands {
						if m.FaultIn(r.Receiver, i, t-B, t) || m.Disturbed(t-B-m.P.Opts.DispatchStartDelay, t) {
							continue
						}
						// sibling integrations' faults only delay (bounded by the flush time-out, part of B)
						v.Ob("O1-eligible-alert-listed-by-latest-notification")
						n := latestDelivered(m, r, i, gl, t)
						if n == nil {
							v.Fail(prop, prop+"/eligible-alert-never-notified", t,
								"alert %s eligible on route %s (receiver %s/%d, group %s) throughout [%v,%v] with a healthy integration, but no notification for its group was delivered by %v (bound %v)",
								lk, r.Path, r.Receiver, i, labelsKey(gl), sp.From, sp.To, t, B)
							break
						}
						if len(m.RoutesOf(n)) > 1 {
							m.H.Probe("ambiguous-group-key-skipped")
							continue
						}
						if !n.Firing()[lk] {
							v.Fail(prop, prop+"/eligible-alert-omitted-by-latest-notification", t,
								"alert %s eligible on route %s (receiver %s/%d, group %s) throughout [%v,%v], but the latest delivered notification (at %v) does not list it as firing at %v (bound %v): %s",
								lk, r.Path, r.Receiver, i, labelsKey(gl), sp.From, sp.To, n.Done, t, B, notifBrief(n))
							break
						}
					}
				}
			}
		}
	}
}

func notifBrief(n *Notif) string {
	var as []string
	for _, a := range n.Alerts {
		as = append(as, a.LKey+":"+a.Status)
	}
	sort.Strings(as)
	return fmt.Sprintf("%s %v", n.Status, as)
}

// checkRejectedReload: a rejected reload leaves the old configuration dispatching
// (clause of C01's quantifier: "config reloads"): nothing to check beyond O1,
// which is evaluated across rejected reloads because they are not disturbances.

func c01Check(p *Plan, r *RunResult) *Verdict {
	v := &Verdict{}
	m := BuildModel(p, r.H, 0)
	checkO1("C01", m, v, 0)
	return v
}

func init() {
	Register(&Prop{
		ID: "C01", Level: "exploration",
		Gen: func(seed uint64, tier string) *Plan {
			k := DefaultKnobs()
			if tier == "thorough" {
				k.HorizonMax = 3 * time.Hour
				k.MaxSets = 8
			}
			return genSingle(seed, "C01", k)
		},
		Check:       c01Check,
		Rule:        "seeded scenario: random routing tree (depth<=2, continue flags, group_by lists/.../empty, timers), 1-2 webhook integrations per receiver, optional inhibit rules, silences (create/edit/expire), mute/active time intervals, 2-8 label sets with fire/heartbeat/resolve/time-out/flap/re-fire timelines, receiver fault windows (5xx/4xx/hang/reset/slow), valid and rejected reloads, scheduling holds at the dispatcher yield points, varying worker counts and maintenance/GC intervals. Non-trivial: at least one O1 obligation was evaluated in a clean window; distinct: by abstract trace (sequence of API calls, notification outcomes and fault events).",
		Real:        []string{"app.New wiring + reloader", "api/v2 handlers", "provider/mem", "dispatch", "inhibit", "silence", "nflog", "notify pipeline (all stages)", "timeinterval", "webhook notifier + net/http client", "config loader"},
		Stub:        []string{"clock (synctest)", "receiver endpoints (net.Pipe + scripted http.Server)", "snapshot disk (simfs)", "goroutine holds at verifhook yield sites"},
		Assumptions: []string{"obligations are asserted only in clean windows (alert eligible, integration healthy, no reload/restart) of length max(group_wait,group_interval)+flush timeout+6s", "eligibility is computed by the reference models (ingestion contract restricted to unambiguous submissions, silences, inhibition rule, calendar)"},
	})
}
