package amsim

import (
	"strconv"
	"strings"
	"time"
)

// Reference calendar predicate, written from the documented field semantics:
// in the interval's location (UTC by default) the minute of the day lies in one
// of the time ranges (start inclusive, end exclusive), and weekday, day of
// month (negative values count from the month's end, ranges are clamped to the
// month), month and year each lie in one of their inclusive ranges; an empty
// field matches everything. A named interval contains an instant when one of
// its entries does.

var weekdayNames = map[string]int{"sunday": 0, "monday": 1, "tuesday": 2, "wednesday": 3, "thursday": 4, "friday": 5, "saturday": 6}
var monthNames = map[string]int{"january": 1, "february": 2, "march": 3, "april": 4, "may": 5, "june": 6, "july": 7, "august": 8, "september": 9, "october": 10, "november": 11, "december": 12}

func parseRange(s string, names map[string]int) (int, int, bool) {
	parts := strings.SplitN(s, ":", 2)
	conv := func(x string) (int, bool) {
		x = strings.ToLower(strings.TrimSpace(x))
		if names != nil {
			if v, ok := names[x]; ok {
				return v, true
			}
		}
		n, err := strconv.Atoi(x)
		return n, err == nil
	}
	b, ok := conv(parts[0])
	if !ok {
		return 0, 0, false
	}
	e := b
	if len(parts) == 2 {
		e, ok = conv(parts[1])
		if !ok {
			return 0, 0, false
		}
	}
	return b, e, true
}

func hhmm(s string) int {
	p := strings.SplitN(s, ":", 2)
	h, _ := strconv.Atoi(p[0])
	m, _ := strconv.Atoi(p[1])
	return h*60 + m
}

func lastDayOfMonth(t time.Time) int {
	// day 0 of the following month
	return time.Date(t.Year(), t.Month()+1, 0, 12, 0, 0, 0, time.UTC).Day()
}

func specContains(s *TISpec, at time.Time) bool {
	t := at.UTC()
	if s.Location != "" {
		loc, err := time.LoadLocation(s.Location)
		if err != nil {
			return false
		}
		t = at.In(loc)
	}
	if len(s.Times) > 0 {
		mod := t.Hour()*60 + t.Minute()
		in := false
		for _, r := range s.Times {
			if mod >= hhmm(r[0]) && mod < hhmm(r[1]) {
				in = true
			}
		}
		if !in {
			return false
		}
	}
	if len(s.Weekdays) > 0 {
		in := false
		for _, r := range s.Weekdays {
			b, e, ok := parseRange(r, weekdayNames)
			if ok && int(t.Weekday()) >= b && int(t.Weekday()) <= e {
				in = true
			}
		}
		if !in {
			return false
		}
	}
	if len(s.DaysOfMonth) > 0 {
		in := false
		dim := lastDayOfMonth(t)
		for _, r := range s.DaysOfMonth {
			b, e, ok := parseRange(r, nil)
			if !ok {
				continue
			}
			if b < 0 {
				b = dim + b + 1
			}
			if e < 0 {
				e = dim + e + 1
			}
			if b > dim {
				continue
			}
			if b < 1 {
				b = 1
			}
			if e > dim {
				e = dim
			}
			if t.Day() >= b && t.Day() <= e {
				in = true
			}
		}
		if !in {
			return false
		}
	}
	if len(s.Months) > 0 {
		in := false
		for _, r := range s.Months {
			b, e, ok := parseRange(r, monthNames)
			if ok && int(t.Month()) >= b && int(t.Month()) <= e {
				in = true
			}
		}
		if !in {
			return false
		}
	}
	if len(s.Years) > 0 {
		in := false
		for _, r := range s.Years {
			b, e, ok := parseRange(r, nil)
			if ok && t.Year() >= b && t.Year() <= e {
				in = true
			}
		}
		if !in {
			return false
		}
	}
	return true
}

func calContains(ti *TimeInterval, at time.Time) bool {
	for i := range ti.Specs {
		if specContains(&ti.Specs[i], at) {
			return true
		}
	}
	return false
}
