package amsim

import (
	"bufio"
	"encoding/json"
	"fmt"
	"os"
	"runtime"
	"runtime/debug"
	"sort"
	"strconv"
	"strings"
	"testing"
	"time"
)

// Prop is one property's generator and oracle.
type Prop struct {
	ID    string
	Level string // exploration | fault_enumeration
	// Gen builds the plan for run number n of a tier. For enumerating
	// properties n indexes the enumeration; Count (if set) bounds it.
	Gen func(seed uint64, tier string) *Plan
	// Check evaluates the post-run history oracles.
	Check func(p *Plan, r *RunResult) *Verdict
	// Count, when set, returns the number of enumerated cases for the tier
	// (runs beyond it are skipped); 0 = open-ended seeded search.
	Count func(tier string) int
	// Custom, when set, replaces plan execution entirely (states/loader checks
	// that do not need whole instances): it returns the run record itself.
	Custom      func(t *testing.T, seed uint64, tier string, replay *Plan) (*Plan, *RunResult, *Verdict)
	Rule        string // how cases are generated and what makes one non-trivial
	Real        []string
	Stub        []string
	Assumptions []string
}

var props = map[string]*Prop{}

func Register(p *Prop) { props[p.ID] = p }

// RunRecord is one line of the worker's output.
type RunRecord struct {
	Prop        string         `json:"prop"`
	Seed        uint64         `json:"seed"`
	Hash        string         `json:"hash"`
	Shape       string         `json:"shape"`
	Violations  []Violation    `json:"violations,omitempty"`
	Obligations map[string]int `json:"obligations,omitempty"`
	Fired       map[string]int `json:"fired,omitempty"`
	Probes      map[string]int `json:"probes,omitempty"`
	VirtMs      int64          `json:"virt_ms"`
	RealMs      float64        `json:"real_ms"`
	Actions     int            `json:"actions"`
	Notifs      int            `json:"notifs"`
	Infra       string         `json:"infra,omitempty"`
	ReplayFile  string         `json:"replay_file,omitempty"`
	Sample      any            `json:"sample,omitempty"`
}

// ReplayFile is what a violation is reported with.
type ReplayFile struct {
	Prop      string    `json:"prop"`
	Seed      uint64    `json:"seed"`
	Tier      string    `json:"tier"`
	Violation Violation `json:"violation"`
	Hash      string    `json:"event_log_hash"`
	Tree      string    `json:"tree,omitempty"`
	Minimised bool      `json:"minimised"`
	ShrinkLog []string  `json:"shrink_log,omitempty"`
	Plan      *Plan     `json:"plan"`
	EventLog  []string  `json:"event_log,omitempty"`
}

// execOne runs one plan (or custom case) and evaluates its oracles.
func execOne(t *testing.T, pr *Prop, seed uint64, tier string, replay *Plan) (*Plan, *RunResult, *Verdict) {
	if pr.Custom != nil {
		return pr.Custom(t, seed, tier, replay)
	}
	p := replay
	if p == nil {
		p = pr.Gen(seed, tier)
	}
	p.SortActions()
	gcoff := os.Getenv("VERIF_GCOFF") != ""
	if gcoff {
		debug.SetGCPercent(-1)
	}
	r := RunPlan(t, p)
	if gcoff {
		debug.SetGCPercent(400)
		runtime.GC()
	}
	v := &Verdict{}
	if r.InfraErr == "" && pr.Check != nil {
		v = pr.Check(p, r)
		// An oracle is a function of the recorded history: evaluate it again and
		// demand the same findings (always when it found something; on every run
		// under VERIF_ORACLE_REPEAT, which the self-test sets).
		if n := envInt("VERIF_ORACLE_REPEAT", 0); n > 0 || len(v.Violations) > 0 {
			if n < 2 {
				n = 2
			}
			for i := 0; i < n; i++ {
				if a, b := violKey(v), violKey(pr.Check(p, r)); a != b {
					r.InfraErr = "oracle not a function of the history: " + a + " vs " + b
					v = &Verdict{}
					break
				}
			}
		}
	}
	// merge online findings
	v.Violations = append(append([]Violation(nil), r.Online.Violations...), v.Violations...)
	for k, n := range r.Online.Obligations {
		v.ObN(k, n)
	}
	return p, r, v
}

func violKey(v *Verdict) string {
	var ks []string
	for _, x := range v.Violations {
		ks = append(ks, x.Sig+"|"+x.Msg)
	}
	sort.Strings(ks)
	return strings.Join(ks, " ;; ")
}

func record(pr *Prop, seed uint64, p *Plan, r *RunResult, v *Verdict) *RunRecord {
	rec := &RunRecord{Prop: pr.ID, Seed: seed, Violations: v.Violations, Obligations: v.Obligations, RealMs: r.RealMs, Infra: r.InfraErr}
	if r.H != nil {
		rec.Hash = r.H.Hash()
		rec.Shape = r.H.Shape()
		rec.Fired = map[string]int{}
		for k, n := range r.H.Fired {
			rec.Fired[k] = n
		}
		if p != nil {
			// the abstract trace also covers the plan's own steps (kind and instance) and which fault kinds fired
			var sb strings.Builder
			sb.WriteString(rec.Shape)
			for _, a := range p.Actions {
				fmt.Fprintf(&sb, "%s%d%s ", a.Kind, a.Inst, a.Str)
			}
			fk := make([]string, 0, len(rec.Fired))
			for k := range rec.Fired {
				fk = append(fk, k)
			}
			sort.Strings(fk)
			sb.WriteString(strings.Join(fk, ","))
			if ck, ok := p.Params["case_key"].(string); ok {
				sb.WriteString(ck)
			}
			rec.Shape = shortHash(sb.String())
		}
		for k, n := range r.FSFired {
			rec.Fired["fs:"+k] += n
		}
		ns := r.NetStats
		for k, n := range map[string]int{"net:drop": ns.Dropped, "net:dup": ns.Duplicated, "net:delay": ns.Delayed, "net:partition-drop": ns.PartitionDrops, "net:stream-refused": ns.StreamsRefused, "net:packets": ns.Packets, "net:streams": ns.Streams} {
			if n > 0 {
				rec.Fired[k] = n
			}
		}
		rec.Probes = r.H.Probes
		rec.Notifs = len(r.H.Notifs)
	}
	if p != nil {
		rec.VirtMs = p.Horizon.Milliseconds()
		rec.Actions = len(p.Actions)
	}
	return rec
}

// WorkerMain is the entry point of the test binary.
//
//	VERIF_MODE=run    VERIF_PROP VERIF_TIER VERIF_SEED_FROM VERIF_SEED_COUNT VERIF_OUT(jsonl) VERIF_DIR(replay files)
//	VERIF_MODE=replay VERIF_REPLAY=<file>         -> prints one record; exit status 0 always
//	VERIF_MODE=shrink VERIF_REPLAY=<file> VERIF_OUT=<file> VERIF_BUDGET_S
//	VERIF_MODE=count  VERIF_PROP VERIF_TIER       -> prints enumeration size
func WorkerMain(t *testing.T) {
	mode := os.Getenv("VERIF_MODE")
	if mode == "" {
		t.Skip("VERIF_MODE not set")
	}
	runtime.GOMAXPROCS(envInt("VERIF_GOMAXPROCS", 1))
	debug.SetGCPercent(400)
	defer CleanupProcessTmp()
	switch mode {
	case "count":
		pr := props[os.Getenv("VERIF_PROP")]
		n := 0
		if pr != nil && pr.Count != nil {
			n = pr.Count(os.Getenv("VERIF_TIER"))
		}
		fmt.Printf("COUNT %d\n", n)
	case "run":
		workerRun(t)
	case "replay":
		workerReplay(t)
	case "shrink":
		workerShrink(t)
	case "plan":
		pr := props[os.Getenv("VERIF_PROP")]
		seed, _ := strconv.ParseUint(os.Getenv("VERIF_SEED_FROM"), 10, 64)
		b, _ := json.MarshalIndent(pr.Gen(seed, os.Getenv("VERIF_TIER")), "", " ")
		fmt.Println(string(b))
	case "meta":
		type meta struct {
			ID, Level, Rule         string
			Real, Stub, Assumptions []string
		}
		var out []meta
		for _, pr := range props {
			out = append(out, meta{pr.ID, pr.Level, pr.Rule, pr.Real, pr.Stub, pr.Assumptions})
		}
		sort.Slice(out, func(i, j int) bool { return out[i].ID < out[j].ID })
		b, _ := json.Marshal(out)
		fmt.Println("META " + string(b))
	default:
		fmt.Println("unknown VERIF_MODE", mode)
		os.Exit(2)
	}
}

func envInt(k string, def int) int {
	if v := os.Getenv(k); v != "" {
		if n, err := strconv.Atoi(v); err == nil {
			return n
		}
	}
	return def
}

func workerRun(t *testing.T) {
	pr := props[os.Getenv("VERIF_PROP")]
	if pr == nil {
		fmt.Println("unknown property", os.Getenv("VERIF_PROP"))
		os.Exit(2)
	}
	tier := os.Getenv("VERIF_TIER")
	from, _ := strconv.ParseUint(os.Getenv("VERIF_SEED_FROM"), 10, 64)
	count := envInt("VERIF_SEED_COUNT", 1)
	stride := uint64(envInt("VERIF_SEED_STRIDE", 1))
	deadline := time.Now().Add(time.Duration(envInt("VERIF_BUDGET_S", 3600)) * time.Second)
	outPath := os.Getenv("VERIF_OUT")
	dir := os.Getenv("VERIF_DIR")
	out := os.Stdout
	if outPath != "" {
		f, err := os.Create(outPath)
		if err != nil {
			fmt.Println(err)
			os.Exit(2)
		}
		defer f.Close()
		out = f
	}
	bw := bufio.NewWriter(out)
	defer bw.Flush()
	samples := 0
	for i := 0; i < count; i++ {
		if time.Now().After(deadline) {
			break
		}
		seed := from + uint64(i)*stride
		fmt.Fprintf(bw, "{\"begin\":%d}\n", seed)
		bw.Flush()
		p, r, v := execOne(t, pr, seed, tier, nil)
		if p == nil && r == nil {
			continue // enumeration exhausted
		}
		rec := record(pr, seed, p, r, v)
		if len(v.Violations) > 0 && dir != "" && p != nil {
			rf := &ReplayFile{Prop: pr.ID, Seed: seed, Tier: tier, Violation: v.Violations[0], Hash: rec.Hash, Plan: p}
			if r.H != nil {
				rf.EventLog = r.H.Canon()
			}
			path := fmt.Sprintf("%s/viol-%s-%d.json", dir, pr.ID, seed)
			b, _ := json.MarshalIndent(rf, "", " ")
			os.WriteFile(path, b, 0o644)
			rec.ReplayFile = path
		}
		if samples < 3 && p != nil && v.TotalObligations() > 0 {
			rec.Sample = samplePlan(p, r)
			samples++
		}
		b, _ := json.Marshal(rec)
		bw.Write(b)
		bw.WriteByte('\n')
		if os.Getenv("VERIF_VERBOSE") != "" && r != nil && r.H != nil {
			for _, l := range r.H.Canon() {
				fmt.Fprintln(bw, "LOG "+l)
			}
		}
		bw.Flush()
		if i%20 == 19 {
			runtime.GC()
		}
	}
}

// samplePlan renders a compact, human-readable view of a case for evidence.
func samplePlan(p *Plan, r *RunResult) any {
	type act struct {
		At   string `json:"at"`
		Kind string `json:"kind"`
		What string `json:"what,omitempty"`
	}
	var acts []act
	for i, a := range p.Actions {
		if i >= 14 {
			acts = append(acts, act{Kind: fmt.Sprintf("... %d more", len(p.Actions)-i)})
			break
		}
		what := ""
		switch {
		case len(a.Alerts) > 0:
			var ls []string
			for _, al := range a.Alerts {
				s := labelsKey(al.Labels)
				if al.EndOff != nil {
					s += fmt.Sprintf(" end%+v", *al.EndOff)
				}
				ls = append(ls, s)
			}
			what = strings.Join(ls, " ")
		case a.Sil != nil:
			what = fmt.Sprintf("%s %v [%v,%v]", a.Sil.Key, a.Sil.Matchers, a.Sil.StartOff, a.Sil.EndOff)
		case a.SilKey != "":
			what = a.SilKey
		case a.Str != "":
			what = a.Str
		}
		acts = append(acts, act{At: a.At.String(), Kind: a.Kind, What: what})
	}
	s := map[string]any{"seed": p.Seed, "start": p.Start.Format(time.RFC3339), "horizon": p.Horizon.String(), "actions": acts,
		"rcv_faults": len(p.Faults), "holds": len(p.Holds), "instances": len(p.Insts)}
	if len(p.Configs) > 0 && p.Configs[0] != nil && p.Configs[0].Route != nil {
		s["config"] = strings.Split(strings.TrimSpace(p.Configs[0].YAML("i")), "\n")
	}
	if r != nil && r.H != nil {
		c := r.H.Canon()
		if len(c) > 12 {
			c = c[:12]
		}
		s["first_events"] = c
	}
	if len(p.Params) > 0 {
		s["params"] = p.Params
	}
	return s
}

func loadReplay(path string) (*ReplayFile, error) {
	b, err := os.ReadFile(path)
	if err != nil {
		return nil, err
	}
	var rf ReplayFile
	if err := json.Unmarshal(b, &rf); err != nil {
		return nil, err
	}
	if rf.Plan == nil {
		return nil, fmt.Errorf("replay file has no plan")
	}
	return &rf, nil
}

func workerReplay(t *testing.T) {
	rf, err := loadReplay(os.Getenv("VERIF_REPLAY"))
	if err != nil {
		fmt.Println("replay:", err)
		os.Exit(2)
	}
	pr := props[rf.Prop]
	if pr == nil {
		fmt.Println("replay: unknown property", rf.Prop)
		os.Exit(2)
	}
	p, r, v := execOne(t, pr, rf.Seed, rf.Tier, rf.Plan)
	rec := record(pr, rf.Seed, p, r, v)
	b, _ := json.Marshal(rec)
	TraceBuf.Flush()
	fmt.Println("RECORD " + string(b))
	if os.Getenv("VERIF_VERBOSE") != "" && r.H != nil {
		for _, l := range r.H.Canon() {
			fmt.Println("LOG " + l)
		}
	}
	same := false
	for _, x := range v.Violations {
		if x.Sig == rf.Violation.Sig {
			same = true
		}
	}
	fmt.Printf("REPLAY same_signature=%v hash_match=%v violations=%d\n", same, rec.Hash == rf.Hash, len(v.Violations))
}

// clonePlan deep-copies via JSON.
func clonePlan(p *Plan) *Plan {
	b, _ := json.Marshal(p)
	var q Plan
	json.Unmarshal(b, &q)
	return &q
}

func workerShrink(t *testing.T) {
	rf, err := loadReplay(os.Getenv("VERIF_REPLAY"))
	if err != nil {
		fmt.Println("shrink:", err)
		os.Exit(2)
	}
	pr := props[rf.Prop]
	budget := time.Duration(envInt("VERIF_BUDGET_S", 60)) * time.Second
	deadline := time.Now().Add(budget)
	sig := rf.Violation.Sig
	var lastV Violation = rf.Violation
	var lastHash = rf.Hash
	var lastLog []string = rf.EventLog
	tries := 0
	fails := func(p *Plan) bool {
		if time.Now().After(deadline) {
			return false
		}
		tries++
		q := clonePlan(p)
		_, r, v := execOne(t, pr, rf.Seed, rf.Tier, q)
		if r == nil || r.InfraErr != "" {
			return false
		}
		for _, x := range v.Violations {
			if x.Sig == sig {
				lastV = x
				if r.H != nil {
					lastHash = r.H.Hash()
					lastLog = r.H.Canon()
				}
				return true
			}
		}
		return false
	}
	cur := clonePlan(rf.Plan)
	var log []string
	if pr.Custom == nil {
		if !fails(cur) {
			fmt.Println("SHRINK not-reproduced")
			return
		}
		cur = shrinkPlan(cur, fails, &log)
		// settle the recorded facts on the final plan
		fails(cur)
	}
	out := &ReplayFile{Prop: rf.Prop, Seed: rf.Seed, Tier: rf.Tier, Violation: lastV, Hash: lastHash, Plan: cur, Minimised: true, ShrinkLog: log, EventLog: lastLog, Tree: rf.Tree}
	b, _ := json.MarshalIndent(out, "", " ")
	if err := os.WriteFile(os.Getenv("VERIF_OUT"), b, 0o644); err != nil {
		fmt.Println("shrink:", err)
		os.Exit(2)
	}
	fmt.Printf("SHRINK ok tries=%d actions=%d->%d faults=%d->%d holds=%d->%d\n", tries, len(rf.Plan.Actions), len(cur.Actions), len(rf.Plan.Faults), len(cur.Faults), len(rf.Plan.Holds), len(cur.Holds))
}

// shrinkPlan is delta debugging over the plan: drop chunks of actions, receiver
// faults, hold rules and partitions, cut the horizon, zero network fault rates;
// a candidate is kept while the same violation signature persists.
func shrinkPlan(p *Plan, fails func(*Plan) bool, log *[]string) *Plan {
	note := func(format string, a ...any) { *log = append(*log, fmt.Sprintf(format, a...)) }
	changed := true
	for changed {
		changed = false
		// actions: ddmin-style, chunk sizes n/2, n/4, ..., 1
		for chunk := (len(p.Actions) + 1) / 2; chunk >= 1; chunk /= 2 {
			for i := 0; i < len(p.Actions); {
				q := clonePlan(p)
				end := min(i+chunk, len(q.Actions))
				q.Actions = append(q.Actions[:i:i], q.Actions[end:]...)
				if fails(q) {
					note("dropped actions [%d,%d)", i, end)
					p = q
					changed = true
				} else {
					i += chunk
				}
			}
			if chunk == 1 {
				break
			}
		}
		for i := 0; i < len(p.Faults); {
			q := clonePlan(p)
			q.Faults = append(q.Faults[:i:i], q.Faults[i+1:]...)
			if fails(q) {
				note("dropped receiver fault %d", i)
				p = q
				changed = true
			} else {
				i++
			}
		}
		for i := 0; i < len(p.Holds); {
			q := clonePlan(p)
			q.Holds = append(q.Holds[:i:i], q.Holds[i+1:]...)
			if fails(q) {
				note("dropped hold %d", i)
				p = q
				changed = true
			} else {
				i++
			}
		}
		if p.Net != nil {
			for i := 0; i < len(p.Net.Parts); {
				q := clonePlan(p)
				q.Net.Parts = append(q.Net.Parts[:i:i], q.Net.Parts[i+1:]...)
				if fails(q) {
					note("dropped partition %d", i)
					p = q
					changed = true
				} else {
					i++
				}
			}
			if p.Net.DropPct > 0 || p.Net.DupPct > 0 || p.Net.Jitter > 0 {
				q := clonePlan(p)
				q.Net.DropPct, q.Net.DupPct, q.Net.Jitter = 0, 0, 0
				if fails(q) {
					note("zeroed network fault rates")
					p = q
					changed = true
				}
			}
		}
		// per-alert simplification inside post actions
		for i := range p.Actions {
			for len(p.Actions[i].Alerts) > 1 {
				q := clonePlan(p)
				q.Actions[i].Alerts = q.Actions[i].Alerts[1:]
				if fails(q) {
					note("dropped an alert of action %d", i)
					p = q
					changed = true
				} else {
					break
				}
			}
		}
	}
	// horizon: cut to just after the last action if that still fails
	if len(p.Actions) > 0 {
		for _, slack := range []Dur{time.Minute, 10 * time.Minute, time.Hour} {
			q := clonePlan(p)
			h := q.Actions[len(q.Actions)-1].At + slack
			if h < q.Horizon {
				q.Horizon = h
				if fails(q) {
					note("horizon cut to %v", h)
					p = q
					break
				}
			}
		}
	}
	return p
}
