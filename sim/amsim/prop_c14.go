package amsim

import (
	"encoding/json"
	"fmt"
	"time"
)

// C14 — updates of one alert are applied to its groups in submission order.
//
// A burst of k back-to-back updates (refresh / resolve / re-fire) of one label
// set is posted 1 ms apart; a hold rule at the ingestion workers' yield point
// (keyed by the update's content: labels + UpdatedAt) delays each update by a
// rank-dependent time, so the workers insert them in the chosen release order.
// For k <= 3 every release order, every kind sequence and 2/3/4/8 workers are
// enumerated.

var c14Kinds = []string{"refresh", "resolve", "refire"}

type c14Case struct {
	K       int
	Kinds   []int
	Perm    []int // Perm[i] = release rank of update i
	Workers int
	InBurst bool // the group-creating update is part of the burst
	// Preempt: the worker processing update PreUpd is suspended at the PreNth-th
	// acquisition of a store lock on its way (-1 = no preemption).
	PreUpd, PreNth int
	// NoGroup: no other alert keeps the aggregation group alive: the burst's
	// updates find no live group and whichever is processed first creates it.
	NoGroup bool
}

func perms(n int) [][]int {
	if n == 1 {
		return [][]int{{0}}
	}
	var out [][]int
	for _, p := range perms(n - 1) {
		for pos := 0; pos <= len(p); pos++ {
			q := append(append(append([]int{}, p[:pos]...), n-1), p[pos:]...)
			out = append(out, q)
		}
	}
	return out
}

var c14Workers = []int{2, 3, 4, 8}

func c14Enumerate(maxK int) []c14Case {
	var out []c14Case
	for k := 2; k <= maxK; k++ {
		nseq := 1
		for i := 0; i < k; i++ {
			nseq *= 3
		}
		for s := 0; s < nseq; s++ {
			kinds := make([]int, k)
			x := s
			for i := range kinds {
				kinds[i] = x % 3
				x /= 3
			}
			for _, pm := range perms(k) {
				for _, wk := range c14Workers {
					out = append(out, c14Case{K: k, Kinds: kinds, Perm: pm, Workers: wk})
				}
			}
		}
	}
	return out
}

var c14Cases = c14Enumerate(3)

// c14Preempt: for bursts of two updates, every kind sequence and release order,
// each update preempted at each of its first six store-lock acquisitions.
func c14PreemptCases() []c14Case {
	var out []c14Case
	for s := 0; s < 9; s++ {
		kinds := []int{s % 3, s / 3}
		for _, pm := range perms(2) {
			for upd := 0; upd < 2; upd++ {
				for nth := 0; nth < 6; nth++ {
					for _, wk := range []int{2, 4} {
						out = append(out, c14Case{K: 2, Kinds: kinds, Perm: pm, Workers: wk, PreUpd: upd, PreNth: nth})
					}
				}
			}
		}
	}
	return out
}

var c14Pre = c14PreemptCases()

// c14NoGroupCases: bursts of 2 and 3 updates of an alert that has no live group,
// every kind sequence and release order, 2 and 4 workers.
func c14NoGroupCases() []c14Case {
	var out []c14Case
	for _, c := range c14Enumerate(3) {
		if c.Workers == 2 || c.Workers == 4 {
			c.PreUpd, c.PreNth = -1, -1
			c.InBurst, c.NoGroup = true, true
			out = append(out, c)
		}
	}
	return out
}

var c14NoGroup = c14NoGroupCases()

func c14Gen(seed uint64, tier string) *Plan {
	var c c14Case
	rng := NewRng(seed)
	if int(seed) < len(c14Cases) {
		c = c14Cases[seed]
		c.PreUpd, c.PreNth = -1, -1
	} else if int(seed) < len(c14Cases)+len(c14Pre) {
		c = c14Pre[int(seed)-len(c14Cases)]
	} else if int(seed) < len(c14Cases)+len(c14Pre)+len(c14NoGroup) {
		c = c14NoGroup[int(seed)-len(c14Cases)-len(c14Pre)]
	} else {
		c.PreUpd, c.PreNth = -1, -1
		// beyond the enumeration: sampled k = 4..5, optional creation inside the burst
		c.K = rng.Range(4, 5)
		c.Kinds = make([]int, c.K)
		for i := range c.Kinds {
			c.Kinds[i] = rng.Intn(3)
		}
		ps := rng.Intn(120)
		c.Perm = make([]int, c.K)
		for i := range c.Perm {
			c.Perm[i] = i
		}
		for i := c.K - 1; i > 0; i-- {
			j := int(mix64(uint64(ps)+uint64(i)*977) % uint64(i+1))
			c.Perm[i], c.Perm[j] = c.Perm[j], c.Perm[i]
		}
		c.Workers = Pick(rng, []int{2, 4, 6, 8})
		c.InBurst = rng.Bool(0.4)
	}
	gw := 20 * time.Second
	gi := 60 * time.Second
	cfg := &Config{
		ResolveTimeout: 5 * time.Minute,
		Route:          &Route{Receiver: "r0", GroupBy: []string{"alertname"}, GroupBySet: true, GroupWait: gw, GroupWaitSet: true, GroupInterval: gi, RepeatInterval: 4 * time.Hour},
		Receivers:      []Receiver{{Name: "r0", Webhooks: []Webhook{{SendResolved: true}}}},
	}
	p := &Plan{Prop: "C14", Family: "single", Seed: seed, Start: BubbleEpoch.Add(24*time.Hour + Dur(seed%977)*time.Second),
		Opts:    InstOpts{Workers: c.Workers, DispatchMaintenance: 30*time.Second + 7},
		Insts:   []InstPlan{{Name: "a", Cfg: 0}},
		Configs: []*Config{cfg},
	}
	labels := map[string]string{"alertname": "X", "job": "j1"}
	other := map[string]string{"alertname": "X", "job": "j2"} // keeps the group alive
	lk := labelsKey(labels)
	t0 := 10 * time.Second
	if !c.NoGroup {
		p.Actions = append(p.Actions, Action{At: t0, Kind: "post", Alerts: []PAlert{{Labels: other}}})
	}
	burst := t0 + gw + 7*time.Second // after the first flush
	if !c.InBurst {
		p.Actions = append(p.Actions, Action{At: t0 + 1*time.Millisecond, Kind: "post", Alerts: []PAlert{{Labels: labels, Annotations: map[string]string{"v": "0"}}}})
	}
	zero := Dur(0)
	lastKind := "refresh"
	var lastAt Dur
	for i := 0; i < c.K; i++ {
		at := burst + Dur(i)*time.Millisecond
		a := PAlert{Labels: labels, Annotations: map[string]string{"v": fmt.Sprint(i + 1)}}
		kind := c14Kinds[c.Kinds[i]]
		if kind == "resolve" {
			a.EndOff = &zero
		}
		if kind == "refresh" {
			st := t0 + time.Millisecond
			if c.InBurst {
				st = burst
			}
			a.StartAbs = &st
		}
		p.Actions = append(p.Actions, Action{At: at, Kind: "post", Alerts: []PAlert{a}, Str: kind})
		p.Holds = append(p.Holds, Hold{Site: "dispatch.worker.recv", Match: fmt.Sprintf("%s@%d", lk, int64(at)), Delay: Dur(c.Perm[i]+1)*10*time.Millisecond + 3})
		if c.PreUpd == i {
			p.Holds = append(p.Holds, Hold{Site: "auto.store", Match: fmt.Sprintf("%s@%d", lk, int64(at)), Nth: c.PreNth, Delay: 45*time.Millisecond + 7})
		}
		lastKind = kind
		lastAt = at
	}
	settle := burst + Dur(c.K+2)*10*time.Millisecond + time.Second
	p.Actions = append(p.Actions, Action{At: settle, Kind: "get_groups", Str: "settled"})
	p.Actions = append(p.Actions, Action{At: settle + time.Millisecond, Kind: "get_alerts", Str: "settled"})
	p.Horizon = burst + gi + 30*time.Second
	p.Actions = append(p.Actions, Action{At: p.Horizon - time.Second, Kind: "get_groups", Str: "final"})
	p.Params = map[string]any{"case_key": fmt.Sprintf("k%d kinds%v perm%v w%d b%v pre%d/%d ng%v", c.K, c.Kinds, c.Perm, c.Workers, c.InBurst, c.PreUpd, c.PreNth, c.NoGroup), "labels": lk, "last_kind": lastKind, "last_at": int64(lastAt), "burst": int64(burst), "k": c.K, "perm": c.Perm, "kinds": c.Kinds, "workers": c.Workers, "in_burst": c.InBurst}
	return p
}

func pInt64(p *Plan, k string) int64 {
	switch v := p.Params[k].(type) {
	case int64:
		return v
	case float64:
		return int64(v)
	case int:
		return int64(v)
	}
	return 0
}

func pStr(p *Plan, k string) string { s, _ := p.Params[k].(string); return s }

func apiFor(r *RunResult, p *Plan, kind, str string) *APIRec {
	for _, a := range r.H.API {
		if a.Action >= 0 && a.Action < len(p.Actions) && p.Actions[a.Action].Kind == kind && p.Actions[a.Action].Str == str {
			return a
		}
	}
	return nil
}

func c14Check(p *Plan, r *RunResult) *Verdict {
	v := &Verdict{}
	lk := pStr(p, "labels")
	rec := apiFor(r, p, "get_groups", "settled")
	if rec == nil || rec.Code != 200 {
		return v // shrunk away or the instance is gone: nothing to check
	}
	// The facts come from what was actually submitted and accepted in this run
	// (never from generator parameters, so that shrinking cannot fabricate a failure).
	var lastAt Dur
	lastKind := ""
	posted := 0
	for _, a := range r.H.API {
		if a.Method != "POST" || a.Code != 200 || a.Action < 0 || a.T > rec.T {
			continue
		}
		for _, al := range p.Actions[a.Action].Alerts {
			if labelsKey(al.Labels) == lk {
				posted++
				lastAt = a.T
				lastKind = p.Actions[a.Action].Str
				if lastKind == "" {
					lastKind = "refresh"
				}
			}
		}
	}
	if posted == 0 {
		return v
	}
	want := p.Start.Add(lastAt)
	var groups []APIGroup
	json.Unmarshal([]byte(rec.Resp), &groups)
	found := false
	for _, g := range groups {
		for _, a := range g.Alerts {
			if labelsKey(a.Labels) != lk {
				continue
			}
			found = true
			v.Ob("group-holds-last-version")
			if !a.UpdatedAt.Equal(want) {
				v.Fail("C14", "C14/group-holds-older-version", rec.T, "after %d back-to-back updates the group of receiver %s holds the version updated at %s, the last submitted one was updated at %s (release ranks %v, kinds %v, workers %v)",
					posted, g.Receiver.Name, a.UpdatedAt.Sub(p.Start), lastAt, p.Params["perm"], p.Params["kinds"], p.Params["workers"])
			}
		}
	}
	if !found && lastKind != "resolve" {
		// A resolved last version is filtered from the API; anything else must be listed.
		v.Ob("group-holds-last-version")
		v.Fail("C14", "C14/alert-missing-from-group", rec.T, "the alert is in no group after its updates were processed (last update kind %s)", lastKind)
	}
	// consequence clause, on the notifications after the last update was submitted
	sawResolved, sawFiringAfter := false, false
	for _, n := range r.H.Notifs {
		if n.T <= lastAt || !n.OK() {
			continue
		}
		for _, a := range n.Alerts {
			if a.LKey != lk {
				continue
			}
			if a.Status == "resolved" {
				sawResolved = true
			} else {
				sawFiringAfter = true
			}
		}
	}
	_ = sawFiringAfter
	v.Ob("notified-status-is-last-version")
	if lastKind == "resolve" {
		// it was notified firing before the burst (unless created inside it) and must be reported resolved at the next flush
		notifiedFiring := false
		for _, n := range r.H.Notifs {
			if n.OK() && n.T < lastAt && n.Firing()[lk] {
				notifiedFiring = true
			}
		}
		if notifiedFiring && !sawResolved && p.Horizon >= lastAt+70*time.Second {
			v.Fail("C14", "C14/resolve-not-notified", p.Horizon, "last submitted version resolved the alert, but no resolved notification followed within one group_interval")
		}
	} else if sawResolved {
		v.Fail("C14", "C14/stale-resolve-notified", p.Horizon, "last submitted version fires, but the alert was notified as resolved (an older resolve overwrote it)")
	}
	if lastKind != "resolve" {
		if fin := apiFor(r, p, "get_groups", "final"); fin != nil && fin.Code == 200 {
			var gs []APIGroup
			json.Unmarshal([]byte(fin.Resp), &gs)
			present := false
			for _, g := range gs {
				for _, a := range g.Alerts {
					if labelsKey(a.Labels) == lk {
						present = true
					}
				}
			}
			v.Ob("firing-alert-stays-in-group")
			if !present {
				v.Fail("C14", "C14/alert-dropped-from-group", fin.T, "last submitted version fires, but one group_interval later no group holds the alert")
			}
		}
	}
	return v
}

func init() {
	Register(&Prop{
		ID: "C14", Level: "fault_enumeration",
		Gen: c14Gen, Check: c14Check,
		Count: func(tier string) int {
			if tier == "thorough" {
				return len(c14Cases) + len(c14Pre) + len(c14NoGroup) + 3000
			}
			return len(c14Cases) + len(c14Pre) + len(c14NoGroup)
		},
		Rule:        "case n < 720: the n-th element of {k=2,3} x {refresh,resolve,refire}^k x all k! release orders of the ingestion workers x {2,3,4,8} workers (complete enumeration); cases 720..1151: bursts of two updates where, in addition, the worker processing one of them is preempted at its j-th store-lock acquisition (j = 0..5, both updates, both release orders, 2 and 4 workers); cases 1152..1511: bursts of 2 and 3 updates of an alert that has no live aggregation group (whichever update is processed first creates it), every kind sequence and release order, 2 and 4 workers; beyond that sampled k=4..5 with the group-creating update optionally inside the burst. Non-trivial: the settled GET /alerts/groups was answered and at least one oracle clause was evaluated; distinct: by abstract trace hash.",
		Real:        []string{"app.New wiring", "api/v2 handlers", "provider/mem", "dispatch (ingestion workers, aggregation groups)", "notify pipeline", "webhook notifier + net/http client"},
		Stub:        []string{"clock (synctest)", "receiver endpoint (net.Pipe + scripted http.Server)", "worker scheduling decided by hold rules at verifhook.Yield(dispatch.worker.recv)"},
		Assumptions: []string{"the release order of ingestion workers is imposed by content-keyed delays at one yield point between channel receive and routeAlert; interleavings inside routeAlert are whatever one P produces"},
	})
}
