package amsim

import (
	"fmt"
	"sort"
	"time"
)

// SingleKnobs steer the shared scenario generator of the "single" family.
type SingleKnobs struct {
	MinSets, MaxSets       int
	HorizonMin, HorizonMax Dur
	GWMax, GIMin, GIMax    Dur
	RepMin, RepMax         Dur // repeat interval range (clamped to >= group_interval unless RepBelowGI)
	Children               int // max children of the root
	PInhibit               float64
	PSilences              float64
	PIntervals             float64
	PFaults                float64
	MaxFaults              int
	FaultModes             []string
	PReload                float64
	PRestart               float64
	PHolds                 float64
	PWebhookTimeout        float64
	PReloadAfterResolve    float64
	PProbe                 float64 // probe GETs sprinkled over the run
	PResolve               float64 // episode ends by explicit resolve (else by time-out)
	PRefire                float64
	PFlap                  float64 // resolve and re-fire within seconds
	MaxAlertsOpt           bool    // allow max_alerts on webhooks
	SendResolved           int     // -1 random, 0 never, 1 always
	OneIntegration         bool
	Retention              Dur
	MaintMin, MaintMax     Dur
	Workers                []int
	NoExplicitEnds         bool
	SlowNearFlush          bool // place slow-receiver faults around re-fires
	StartAt                func(r *Rng) time.Time
}

func DefaultKnobs() SingleKnobs {
	return SingleKnobs{
		MinSets: 2, MaxSets: 7, HorizonMin: 25 * time.Minute, HorizonMax: 90 * time.Minute,
		GWMax: 30 * time.Second, GIMin: 10 * time.Second, GIMax: 2 * time.Minute, RepMin: time.Minute, RepMax: 30 * time.Minute,
		Children: 3, PInhibit: 0.3, PSilences: 0.5, PIntervals: 0.15, PFaults: 0.6, MaxFaults: 4,
		FaultModes: []string{"5xx", "5xx", "4xx", "hang", "reset", "slow"}, PReload: 0.25, PRestart: 0, PHolds: 0.3, PProbe: 0.5,
		PResolve: 0.6, PRefire: 0.5, PFlap: 0.2, SendResolved: -1, MaintMin: 2 * time.Minute, MaintMax: 15 * time.Minute,
		Workers: []int{0, 0, 2, 4, 8},
	}
}

var (
	uniNames    = []string{"A", "B", "C"}
	uniSeverity = []string{"critical", "warning"}
	uniJob      = []string{"j1", "j2"}
	uniCluster  = []string{"c1", "c2", ""}
)

func genLabelSets(r *Rng, n int) []map[string]string {
	seen := map[string]bool{}
	var out []map[string]string
	for tries := 0; len(out) < n && tries < 100; tries++ {
		ls := map[string]string{"alertname": Pick(r, uniNames), "severity": Pick(r, uniSeverity), "job": Pick(r, uniJob)}
		if c := Pick(r, uniCluster); c != "" {
			ls["cluster"] = c
		}
		k := labelsKey(ls)
		if !seen[k] {
			seen[k] = true
			out = append(out, ls)
		}
	}
	return out
}

func genMatchers(r *Rng, n int) []M {
	pool := []M{
		{"alertname", "=", "A"}, {"alertname", "=", "B"}, {"alertname", "=~", "A|B"}, {"alertname", "!=", "C"}, {"alertname", "=~", "B|C"},
		{"severity", "=", "critical"}, {"severity", "!=", "critical"}, {"severity", "=~", "warn.*"},
		{"job", "=", "j1"}, {"job", "=~", "j.*"}, {"job", "!~", "j2"},
		{"cluster", "=", "c1"}, {"cluster", "!=", "c2"}, {"cluster", "=", ""}, {"cluster", "=~", "c1|c2"}, {"cluster", "!~", "c.+"},
	}
	var out []M
	used := map[string]bool{}
	for len(out) < n {
		m := Pick(r, pool)
		if used[m.Name] {
			continue
		}
		used[m.Name] = true
		out = append(out, m)
	}
	return out
}

var groupByChoices = [][]string{{"alertname"}, {"alertname", "job"}, {"..."}, {}, {"cluster", "alertname"}, {"severity"}, {"job"}}

func genRoute(r *Rng, k *SingleKnobs, depth int, receivers *[]string, intervals []string) *Route {
	rt := &Route{}
	if depth == 0 {
		rt.Receiver = "r0"
		rt.GroupBy, rt.GroupBySet = Pick(r, groupByChoices), true
		rt.GroupWait, rt.GroupWaitSet = r.Dur(0, k.GWMax), true
		rt.GroupInterval = r.Dur(k.GIMin, k.GIMax)
		rt.RepeatInterval = r.Dur(max(k.RepMin, rt.GroupInterval), max(k.RepMax, rt.GroupInterval))
	} else {
		rt.Matchers = genMatchers(r, r.Range(1, 2))
		if r.Bool(0.6) {
			name := fmt.Sprintf("r%d", len(*receivers))
			if r.Bool(0.3) && len(*receivers) > 1 {
				name = Pick(r, *receivers)
			} else {
				*receivers = append(*receivers, name)
			}
			rt.Receiver = name
		}
		if r.Bool(0.4) {
			rt.GroupBy, rt.GroupBySet = Pick(r, groupByChoices), true
		}
		if r.Bool(0.3) {
			rt.GroupWait, rt.GroupWaitSet = r.Dur(0, k.GWMax), true
		}
		if r.Bool(0.3) {
			rt.GroupInterval = r.Dur(k.GIMin, k.GIMax)
			rt.RepeatInterval = r.Dur(max(k.RepMin, rt.GroupInterval), max(k.RepMax, rt.GroupInterval))
		}
		rt.Continue = r.Bool(0.3)
		if len(intervals) > 0 && r.Bool(0.5) {
			if r.Bool(0.5) {
				rt.Mute = []string{Pick(r, intervals)}
			} else {
				rt.Active = []string{Pick(r, intervals)}
			}
		}
	}
	if depth < 2 {
		n := r.Intn(k.Children + 1)
		if depth == 1 {
			n = r.Intn(3)
		}
		// Sibling routes with identical matchers share a group key (documented
		// limitation of Route.Key); such degenerate trees are not generated.
		seen := map[string]bool{}
		for i := 0; i < n; i++ {
			c := genRoute(r, k, depth+1, receivers, intervals)
			var ms []string
			for _, m := range c.Matchers {
				ms = append(ms, m.String())
			}
			sort.Strings(ms)
			key := fmt.Sprint(ms)
			if seen[key] {
				continue
			}
			seen[key] = true
			rt.Routes = append(rt.Routes, c)
		}
	}
	return rt
}

// fixRepeat makes sure that every route's resolved repeat_interval >= group_interval.
func fixRepeat(root *Route) {
	var walk func(r *Route, gi, rep Dur)
	walk = func(r *Route, gi, rep Dur) {
		if r.GroupInterval > 0 {
			gi = r.GroupInterval
		}
		if r.RepeatInterval > 0 {
			rep = r.RepeatInterval
		}
		if rep < gi {
			r.RepeatInterval = gi
			rep = gi
		}
		for _, c := range r.Routes {
			walk(c, gi, rep)
		}
	}
	walk(root, 5*time.Minute, 4*time.Hour)
}

// genInterval builds a time interval that covers part of the run: a window of
// minutes in UTC around an offset of the start instant.
func genInterval(r *Rng, name string, start time.Time, horizon Dur) TimeInterval {
	from := start.Add(r.Dur(0, horizon/2)).UTC()
	to := from.Add(r.Dur(3*time.Minute, horizon/3))
	f := func(t time.Time) string { return fmt.Sprintf("%02d:%02d", t.Hour(), t.Minute()) }
	sp := TISpec{}
	if to.Day() == from.Day() && f(to) > f(from) {
		sp.Times = [][2]string{{f(from), f(to)}}
	} else {
		sp.Times = [][2]string{{f(from), "24:00"}}
	}
	return TimeInterval{Name: name, Specs: []TISpec{sp}}
}

type planBuilder struct {
	p    *Plan
	used map[Dur]bool
}

// add places an action at the first free millisecond at or after at.
func (b *planBuilder) add(a Action) Dur {
	a.At = a.At.Truncate(time.Millisecond)
	if a.At < time.Millisecond {
		a.At = time.Millisecond
	}
	for b.used[a.At] {
		a.At += time.Millisecond
	}
	b.used[a.At] = true
	b.p.Actions = append(b.p.Actions, a)
	return a.At
}

func genSingle(seed uint64, prop string, k SingleKnobs) *Plan {
	rng := NewRng(seed)
	start := BubbleEpoch.Add(24*time.Hour + Dur(rng.Intn(86400*365))*time.Second + Dur(rng.Intn(1000))*time.Millisecond)
	if k.StartAt != nil {
		start = k.StartAt(rng.Fork("start"))
	}
	p := &Plan{Prop: prop, Family: "single", Seed: seed, Start: start}
	p.Horizon = rng.Dur(k.HorizonMin, k.HorizonMax)
	b := &planBuilder{p: p, used: map[Dur]bool{}}

	// configuration
	rc := rng.Fork("config")
	cfg := &Config{ResolveTimeout: rc.Dur(2*time.Minute, 8*time.Minute)}
	var intervals []string
	if rc.Bool(k.PIntervals) {
		n := rc.Range(1, 2)
		for i := 0; i < n; i++ {
			ti := genInterval(rc, fmt.Sprintf("ti%d", i), start, p.Horizon)
			cfg.Intervals = append(cfg.Intervals, ti)
			intervals = append(intervals, ti.Name)
		}
	}
	receivers := []string{"r0"}
	cfg.Route = genRoute(rc, &k, 0, &receivers, intervals)
	fixRepeat(cfg.Route)
	for _, name := range receivers {
		rcv := Receiver{Name: name}
		n := rc.Range(1, 2)
		if k.OneIntegration {
			n = 1
		}
		for i := 0; i < n; i++ {
			w := Webhook{SendResolved: rc.Bool(0.6)}
			if k.SendResolved == 0 {
				w.SendResolved = false
			} else if k.SendResolved == 1 {
				w.SendResolved = true
			}
			if k.MaxAlertsOpt && rc.Bool(0.3) {
				w.MaxAlerts = rc.Range(1, 3)
			}
			if rc.Bool(k.PWebhookTimeout) {
				// a per-attempt time-out: a hanging receiver is then retried within the flush
				w.Timeout = Pick(rc, []Dur{300 * time.Millisecond, 2 * time.Second, 7 * time.Second})
			}
			rcv.Webhooks = append(rcv.Webhooks, w)
		}
		cfg.Receivers = append(cfg.Receivers, rcv)
	}
	if rc.Bool(k.PInhibit) {
		n := rc.Range(1, 2)
		for i := 0; i < n; i++ {
			ih := Inhibit{Source: genMatchers(rc, 1), Target: genMatchers(rc, 1)}
			switch rc.Intn(4) {
			case 0:
				ih.Equal = []string{"job"}
			case 1:
				ih.Equal = []string{"cluster"}
			case 2:
				ih.Equal = []string{"job", "cluster"}
			}
			cfg.Inhibits = append(cfg.Inhibits, ih)
		}
	}
	p.Configs = []*Config{cfg, {Raw: "route:\n  receiver: nosuch\nreceivers:\n- name: r0\n"}, {Raw: "route: [this is not\n  valid: yaml"}}
	p.Insts = []InstPlan{{Name: "a", Cfg: 0}}
	p.Opts = InstOpts{
		Retention:           k.Retention,
		MaintenanceInterval: rc.Dur(k.MaintMin, k.MaintMax) + 13,
		AlertGCInterval:     rc.Dur(time.Minute, 20*time.Minute) + 29,
		DispatchMaintenance: rc.Dur(5*time.Second, 45*time.Second) + 7,
		Workers:             Pick(rc, k.Workers),
	}

	// alert timelines
	ra := rng.Fork("alerts")
	sets := genLabelSets(ra, ra.Range(k.MinSets, k.MaxSets))
	zero := Dur(0)
	for _, ls := range sets {
		explicit := !k.NoExplicitEnds && ra.Bool(0.4)
		x := cfg.ResolveTimeout
		if explicit {
			x = ra.Dur(5*time.Minute, 30*time.Minute)
		}
		hb := x/3 + ra.Dur(0, x/6)
		t := ra.Dur(5*time.Second, p.Horizon/3)
		for ep := 0; ep < 3 && t < p.Horizon-time.Minute; ep++ {
			stop := t + ra.Dur(2*time.Minute, p.Horizon/2)
			for ; t < stop && t < p.Horizon-30*time.Second; t += hb {
				a := PAlert{Labels: ls}
				if explicit {
					e := x
					a.EndOff = &e
				}
				b.add(Action{At: t, Kind: "post", Alerts: []PAlert{a}})
			}
			if ra.Bool(k.PResolve) {
				// explicit resolve shortly after the last heartbeat
				rt := t - hb + ra.Dur(5*time.Second, hb-time.Second)
				if rt < p.Horizon-10*time.Second {
					off := zero
					if ra.Bool(0.3) {
						off = -ra.Dur(time.Second, 10*time.Second)
					}
					at := b.add(Action{At: rt, Kind: "post", Alerts: []PAlert{{Labels: ls, EndOff: &off}}, Str: "resolve"})
					t = at
					if ra.Bool(k.PFlap) {
						ft := at + ra.Dur(time.Second, 40*time.Second)
						if ra.Bool(0.3) {
							// tight flap: the re-fire follows within milliseconds, and the worker
							// that holds the resolve may be slower than the one holding the re-fire
							ft = at + ra.Dur(2*time.Millisecond, 200*time.Millisecond)
							if ra.Bool(0.6) {
								p.Holds = append(p.Holds, Hold{Site: "dispatch.worker.recv", Match: fmt.Sprintf("%s@%d", labelsKey(ls), int64(at)), Delay: ra.Dur(300*time.Millisecond, 2*time.Second) + 3})
							}
						}
						a := PAlert{Labels: ls}
						if explicit {
							e := x
							a.EndOff = &e
						}
						rat := b.add(Action{At: ft, Kind: "post", Alerts: []PAlert{a}, Str: "refire"})
						if ra.Bool(0.3) {
							// the worker that ingests the re-fire is suspended right before one of
							// its first store critical sections (between looking the group up and
							// inserting into it), while the group's flush of the resolution may run
							p.Holds = append(p.Holds, Hold{Site: "auto.store", Match: fmt.Sprintf("%s@%d", labelsKey(ls), int64(rat)), Nth: ra.Intn(5), Delay: ra.Dur(300*time.Millisecond, 2*time.Second) + 3})
						}
						t = ft + hb
						continue
					}
				}
			} else {
				t = t - hb + x // times out
			}
			if !ra.Bool(k.PRefire) {
				break
			}
			t += ra.Dur(10*time.Second, 10*time.Minute)
		}
	}

	// silences
	rs := rng.Fork("silences")
	if rs.Bool(k.PSilences) {
		n := rs.Range(1, 3)
		for i := 0; i < n; i++ {
			ls := Pick(rs, sets)
			var ms []M
			switch rs.Intn(4) {
			case 0:
				ms = []M{{"alertname", "=", ls["alertname"]}}
			case 1:
				ms = []M{{"job", "=", ls["job"]}, {"severity", "=~", "crit.*|warn.*"}}
			case 2:
				ms = []M{{"alertname", "=~", "A|B|C"}, {"severity", "!=", ls["severity"]}}
			default:
				ms = []M{{"alertname", "=", ls["alertname"]}, {"job", "=", ls["job"]}}
			}
			key := fmt.Sprintf("s%d", i)
			at := rs.Dur(10*time.Second, p.Horizon*2/3)
			s := &PSilence{Key: key, Matchers: ms, EndOff: rs.Dur(2*time.Minute, 25*time.Minute)}
			if rs.Bool(0.3) {
				s.StartOff = rs.Dur(30*time.Second, 3*time.Minute)
				s.EndOff += s.StartOff
			}
			at = b.add(Action{At: at, Kind: "silence", Sil: s})
			if rs.Bool(0.35) {
				// edit: extend or shorten
				et := at + rs.Dur(20*time.Second, s.EndOff-10*time.Second)
				e := &PSilence{Key: key, EditOf: key, Matchers: ms, StartOff: at + s.StartOff - et, EndOff: rs.Dur(time.Minute, 20*time.Minute)}
				if e.StartOff > 0 || rs.Bool(0.5) {
					// keep the stored start: an active silence keeps its id only if the start is unchanged
				}
				b.add(Action{At: et, Kind: "silence", Sil: e})
			}
			if rs.Bool(0.35) {
				b.add(Action{At: at + rs.Dur(10*time.Second, s.EndOff), Kind: "expire", SilKey: key})
			}
		}
	}

	// receiver faults
	rf := rng.Fork("faults")
	if rf.Bool(k.PFaults) && len(k.FaultModes) > 0 {
		n := rf.Range(1, k.MaxFaults)
		for i := 0; i < n; i++ {
			rc := Pick(rf, cfg.Receivers)
			f := RcvFault{Inst: -1, Receiver: rc.Name, Integ: rf.Intn(len(rc.Webhooks)), Mode: Pick(rf, k.FaultModes)}
			f.From = rf.Dur(0, p.Horizon*3/4)
			f.To = f.From + rf.Dur(5*time.Second, 8*time.Minute)
			if f.Mode == "slow" {
				f.Latency = rf.Dur(200*time.Millisecond, 25*time.Second)
				// never within 100 ms of the integration's own per-attempt time-out: an
				// answer that leaves the receiver at the instant the sender gives up is
				// delivered for the one and failed for the other
				if to := rc.Webhooks[f.Integ].Timeout; to > 0 && f.Latency > to-100*time.Millisecond && f.Latency < to+100*time.Millisecond {
					f.Latency = to + 150*time.Millisecond
				}
			}
			p.Faults = append(p.Faults, f)
		}
	}

	// reloads / restarts
	rr := rng.Fork("reload")
	if rr.Bool(k.PReload) {
		n := rr.Range(1, 2)
		for i := 0; i < n; i++ {
			b.add(Action{At: rr.Dur(30*time.Second, p.Horizon*3/4), Kind: "reload", Cfg: Pick(rr, []int{0, 0, 1, 2})})
		}
	}
	if rr.Bool(k.PReloadAfterResolve) {
		// a reload while a resolution is still owed: shortly after an explicit resolve,
		// before the group's next flush
		var res []Dur
		for _, a := range p.Actions {
			if a.Kind == "post" && a.Str == "resolve" {
				res = append(res, a.At)
			}
		}
		if len(res) > 0 {
			b.add(Action{At: Pick(rr, res) + rr.Dur(50*time.Millisecond, 40*time.Second), Kind: "reload", Cfg: 0})
		}
	}
	if rr.Bool(k.PRestart) {
		b.add(Action{At: rr.Dur(time.Minute, p.Horizon*3/4), Kind: "restart", D: rr.Dur(0, 20*time.Second)})
	}

	// scheduling holds
	rh := rng.Fork("holds")
	if rh.Bool(k.PHolds) {
		sites := []string{"dispatch.worker.recv", "dispatch.group.loaded", "dispatch.group.create", "dispatch.group.retry", "dispatch.maint.destroyed", "dispatch.flush.beforeDelete"}
		n := rh.Range(1, 3)
		for i := 0; i < n; i++ {
			h := Hold{Site: Pick(rh, sites)}
			switch h.Site {
			case "dispatch.maint.destroyed", "dispatch.flush.beforeDelete":
				// delays only the sweeper / one group's run loop
				h.Delay = rh.Dur(time.Millisecond, 3*time.Second) + 3
			default:
				// on the ingestion path: a targeted hold (one label set) may be long, a
				// hold for every alert must stay short or the two workers back up
				if rh.Bool(0.7) {
					h.Match = labelsKey(Pick(rh, sets))
					if h.Site == "dispatch.worker.recv" {
						h.Delay = rh.Dur(time.Millisecond, 2*time.Second) + 3
					} else {
						h.Delay = rh.Dur(time.Millisecond, 300*time.Millisecond) + 3
					}
				} else {
					h.Delay = rh.Dur(time.Millisecond, 30*time.Millisecond) + 3
				}
			}
			p.Holds = append(p.Holds, h)
		}
	}

	// one-shot suspensions right before a store critical section (ingestion
	// workers, group run loops, GC goroutines); short, like the other holds on
	// the ingestion path
	if ra := rng.Fork("autoholds"); ra.Bool(k.PHolds) {
		p.Holds = append(p.Holds, AutoHolds(ra, AutoSitesIngest, ra.Range(1, 3), 120, time.Millisecond, 800*time.Millisecond)...)
	}

	// the maintenance sweep suspended right before one of its operations on the group map
	if rm := rng.Fork("sweephold"); rm.Bool(k.PHolds * 0.5) {
		p.Holds = append(p.Holds, Hold{Site: "auto.lock", Match: "dispatch.Dispatcher.doMaintenance", Nth: rm.Intn(12), Delay: rm.Dur(500*time.Millisecond, 3*time.Second) + 5})
	}

	// probes
	rp := rng.Fork("probes")
	if rp.Bool(k.PProbe) {
		n := rp.Range(2, 8)
		for i := 0; i < n; i++ {
			b.add(Action{At: rp.Dur(10*time.Second, p.Horizon-time.Second), Kind: Pick(rp, []string{"get_alerts", "get_groups", "get_groups"})})
		}
	}
	p.SortActions()
	return p
}

func sortedKeys[V any](m map[string]V) []string {
	out := make([]string, 0, len(m))
	for k := range m {
		out = append(out, k)
	}
	sort.Strings(out)
	return out
}
