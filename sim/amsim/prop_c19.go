package amsim

import (
	"context"
	"fmt"
	"os"
	"strings"
	"time"

	"github.com/hashicorp/memberlist"
	"google.golang.org/protobuf/proto"
	"google.golang.org/protobuf/types/known/timestamppb"

	"github.com/prometheus/alertmanager/cluster/clusterpb"
	pb "github.com/prometheus/alertmanager/silence/silencepb"
)

// C19 — the gossip transport delivers every state update to every live peer.
//
// 2-4 real instances with real cluster.Peer + memberlist over the simulated
// network (drop, duplication, delay, partitions until a chosen instant), join
// orders and late joins, silences whose encoded size is spread around the
// gossip/reliable threshold and beyond one packet, notification-log entries from
// real flushes, and a foreign memberlist node that injects garbage, unknown keys,
// truncated protobuf, duplicates and full-state messages that mix malformed and
// valid parts.

// ---- foreign peer ----

type foreignDelegate struct {
	w     *World
	queue [][]byte
	state []byte
}

func (d *foreignDelegate) NodeMeta(int) []byte           { return []byte{} }
func (d *foreignDelegate) NotifyMsg([]byte)              {}
func (d *foreignDelegate) MergeRemoteState([]byte, bool) {}
func (d *foreignDelegate) LocalState(bool) []byte {
	d.w.mu.Lock()
	defer d.w.mu.Unlock()
	return d.state
}
func (d *foreignDelegate) GetBroadcasts(overhead, limit int) [][]byte {
	d.w.mu.Lock()
	defer d.w.mu.Unlock()
	var out [][]byte
	for len(d.queue) > 0 && len(d.queue[0])+overhead <= limit {
		out = append(out, d.queue[0])
		limit -= len(d.queue[0]) + overhead
		d.queue = d.queue[1:]
	}
	return out
}

type foreignPeer struct {
	ml  *memberlist.Memberlist
	del *foreignDelegate
}

func (w *World) foreign() *foreignPeer {
	f, _ := w.Scratch["foreign"].(*foreignPeer)
	return f
}

func (w *World) startForeign() error {
	if w.Scratch == nil {
		w.Scratch = map[string]any{}
	}
	if w.foreign() != nil || w.Net == nil {
		return nil
	}
	d := &foreignDelegate{w: w}
	if b, ok := w.Scratch["foreign_pending_state"].([]byte); ok {
		d.state = b
	}
	cfg := memberlist.DefaultLANConfig()
	cfg.Name = "zz-foreign"
	addr := "10.0.0.99:9094"
	cfg.BindAddr, cfg.BindPort = "10.0.0.99", 9094
	cfg.AdvertiseAddr, cfg.AdvertisePort = "10.0.0.99", 9094
	cfg.Delegate = d
	cfg.GossipInterval = 200*time.Millisecond + 31
	cfg.ProbeInterval = time.Second + 37
	cfg.ProbeTimeout = 500*time.Millisecond + 41
	cfg.PushPullInterval = orDur(w.Plan.Opts.PushPullInterval, 60*time.Second) + 43
	cfg.TCPTimeout = 2*time.Second + 47
	cfg.Transport = w.Net.NewTransport("zz-foreign", addr)
	cfg.LogOutput = discard{}
	if os.Getenv("VERIF_LOG") != "" {
		cfg.LogOutput = TraceBuf
	}
	ml, err := memberlist.Create(cfg)
	if err != nil {
		return err
	}
	w.Scratch["foreign"] = &foreignPeer{ml: ml, del: d}
	_, err = ml.Join([]string{w.Insts[0].Addr})
	w.H.AddEvent("foreign-start", "zz-foreign", fmt.Sprint(err))
	return nil
}

type discard struct{}

func (discard) Write(p []byte) (int, error) { return len(p), nil }

func validSilencePart(w *World, key string, d Dur) (*clusterpb.Part, string) {
	now := time.Now()
	id := fmt.Sprintf("%08x-3333-4000-8000-%012x", uint32(Hash64(3, key)), uint64(Hash64(5, key))&0xffffffffffff)
	s := &pb.Silence{Id: id, MatcherSets: pbSets([][]M{{{"alertname", "=", "F-" + key}}}), StartsAt: timestamppb.New(now.Add(-time.Second)), EndsAt: timestamppb.New(now.Add(d)), UpdatedAt: timestamppb.New(now.Add(-time.Second)), Comment: key, CreatedBy: "foreign"}
	b := marshalMesh(&pb.MeshSilence{Silence: s, ExpiresAt: timestamppb.New(s.EndsAt.AsTime().Add(w.retention()))})
	return &clusterpb.Part{Key: "sil", Data: b}, id
}

func init() {
	RegisterAction("foreign_start", func(w *World, idx int, a *Action) {
		if err := w.startForeign(); err != nil {
			w.H.AddEvent("foreign-failed", "", err.Error())
		}
	})
	// foreign_bcast queues user messages on the foreign node.
	RegisterAction("foreign_bcast", func(w *World, idx int, a *Action) {
		f := w.foreign()
		if f == nil {
			return
		}
		var msgs [][]byte
		part := func(p *clusterpb.Part) []byte { b, _ := proto.Marshal(p); return b }
		switch a.Str {
		case "garbage":
			msgs = append(msgs, []byte{0xff, 0x13, 0x37, 0x00, 0xfe, 0x81, 0x42})
		case "unknown-key":
			msgs = append(msgs, part(&clusterpb.Part{Key: "xyz", Data: []byte("whatever")}))
		case "bad-sil-payload":
			msgs = append(msgs, part(&clusterpb.Part{Key: "sil", Data: []byte{0x0a, 0xff, 0xff, 0x01}}))
		case "bad-nfl-payload":
			msgs = append(msgs, part(&clusterpb.Part{Key: "nfl", Data: []byte{0x7f, 0x01, 0x02}}))
		case "truncated":
			p, _ := validSilencePart(w, a.SilKey, a.D)
			b := part(p)
			msgs = append(msgs, b[:len(b)*2/3])
		case "valid-sil", "dup-valid-sil":
			p, id := validSilencePart(w, a.SilKey, a.D)
			msgs = append(msgs, part(p))
			if a.Str == "dup-valid-sil" {
				msgs = append(msgs, part(p), part(p))
			}
			w.SilIDs[a.SilKey] = id
			w.SilKeyOf[id] = a.SilKey
			w.H.AddEvent("foreign-valid-silence", "zz-foreign", id)
		}
		w.mu.Lock()
		f.del.queue = append(f.del.queue, msgs...)
		w.mu.Unlock()
		w.H.Fire("foreign:" + a.Str)
	})
	// foreign_state sets the full state the foreign node offers in push/pull
	// exchanges: malformed and unknown parts together with a valid silence part.
	RegisterAction("foreign_state", func(w *World, idx int, a *Action) {
		if w.Scratch == nil {
			w.Scratch = map[string]any{}
		}
		f := w.foreign()
		valid, id := validSilencePart(w, a.SilKey, a.D)
		bad := &clusterpb.Part{Key: "nfl", Data: []byte{0x7f, 0x01, 0x02}}
		badSil := &clusterpb.Part{Key: "sil", Data: []byte{0x0a, 0xff, 0xff, 0x01}}
		unk := &clusterpb.Part{Key: "zzz", Data: []byte("??")}
		var parts []*clusterpb.Part
		switch a.Str {
		case "bad-nfl-then-valid-sil":
			parts = []*clusterpb.Part{bad, valid}
		case "unknown-then-valid-sil":
			parts = []*clusterpb.Part{unk, valid}
		case "valid-sil-then-bad-nfl":
			parts = []*clusterpb.Part{valid, bad}
		case "bad-sil-then-valid-sil":
			parts = []*clusterpb.Part{badSil, valid}
		default:
			parts = []*clusterpb.Part{valid}
		}
		b, _ := proto.Marshal(&clusterpb.FullState{Parts: parts})
		w.mu.Lock()
		if f != nil {
			f.del.state = b
		} else {
			w.Scratch["foreign_pending_state"] = b // offered from the first push/pull (the join) on
		}
		w.mu.Unlock()
		w.SilIDs[a.SilKey] = id
		w.SilKeyOf[id] = a.SilKey
		w.H.AddEvent("foreign-valid-silence", "zz-foreign", id)
		w.H.Fire("foreign-state:" + a.Str)
	})
	RegisterAction("cluster_probe", func(w *World, idx int, a *Action) { w.c19Probe(a.Str) })
	finalHooks["C19"] = func(w *World) {
		w.c19Probe("final")
		if f := w.foreign(); f != nil {
			f.ml.Shutdown()
		}
	}
}

type c19View struct {
	Sils    map[string]time.Time // id -> updatedAt
	Nf      map[string]time.Time // key -> timestamp
	Members int
}

func (w *World) c19View(i int) *c19View {
	in := w.Insts[i]
	if in.App == nil {
		return nil
	}
	v := &c19View{Sils: map[string]time.Time{}, Nf: map[string]time.Time{}}
	sils, _, _ := in.Int.Silences.Query(context.Background())
	for _, s := range sils {
		v.Sils[s.Id] = s.UpdatedAt.AsTime()
	}
	if raw, err := in.Int.Nflog.MarshalBinary(); err == nil {
		if ms, err := decodeEntries(raw); err == nil {
			for _, m := range ms {
				k, e := fromMesh(m)
				v.Nf[k] = e.TS
			}
		}
	}
	if in.Int.Peer != nil {
		v.Members = in.Int.Peer.ClusterSize()
	}
	return v
}

// c19Probe records what every live instance holds.
func (w *World) c19Probe(tag string) {
	views := map[string]*c19View{}
	for i := range w.Insts {
		views[w.Insts[i].Name] = w.c19View(i)
	}
	w.H.AddEvent("cluster-view:"+tag, "", mustJSON(views))
}

type c19Parsed struct {
	T     Dur
	Tag   string
	Views map[string]*c19View // instance name -> view (nil = down)
}

func parseViews(p *Plan, h *History) []c19Parsed {
	var out []c19Parsed
	for _, e := range h.Events {
		if !strings.HasPrefix(e.Kind, "cluster-view:") {
			continue
		}
		pv := c19Parsed{T: e.T, Tag: strings.TrimPrefix(e.Kind, "cluster-view:"), Views: map[string]*c19View{}}
		if jsonUnmarshal(e.Msg, &pv.Views) != nil {
			continue
		}
		out = append(out, pv)
	}
	return out
}

func c19Gen(seed uint64, tier string) *Plan {
	rng := NewRng(seed)
	start := BubbleEpoch.Add(90*24*time.Hour + Dur(rng.Intn(86400*200))*time.Second)
	p := &Plan{Prop: "C19", Family: "cluster", Seed: seed, Start: start}
	n := rng.Range(2, 4)
	cfg := &Config{ResolveTimeout: 5 * time.Minute,
		Route:     &Route{Receiver: "r0", GroupBy: []string{"alertname"}, GroupBySet: true, GroupWait: 2 * time.Second, GroupWaitSet: true, GroupInterval: 20 * time.Second, RepeatInterval: 10 * time.Minute},
		Receivers: []Receiver{{Name: "r0", Webhooks: []Webhook{{SendResolved: true}}}}}
	p.Configs = []*Config{cfg}
	names := []string{"am-a", "am-b", "am-c", "am-d"}
	late := rng.Bool(0.5)
	for i := 0; i < n; i++ {
		ip := InstPlan{Name: names[i]}
		if i > 0 {
			ip.Peers = []int{0}
			if rng.Bool(0.3) && i > 1 {
				ip.Peers = []int{i - 1}
			}
		}
		if late && i == n-1 {
			ip.StartAt = rng.Dur(90*time.Second, 4*time.Minute)
		}
		p.Insts = append(p.Insts, ip)
	}
	pushpull := Pick(rng, []Dur{20 * time.Second, 45 * time.Second, 5 * time.Minute})
	// relay mode: three instances, a loss-free network in which the link between two
	// of them is cut for a long phase; an update made on one side of the cut must
	// reach the other side through the common neighbour's re-broadcast, long before
	// the next full-state exchange
	relay := n == 3 && !late && rng.Bool(0.3)
	if relay {
		pushpull = 5 * time.Minute
	}
	p.Opts = InstOpts{Cluster: true, PeerTimeout: rng.Dur(2*time.Second, 8*time.Second), GossipInterval: 200*time.Millisecond + 7, PushPullInterval: pushpull + 29,
		ProbeInterval: time.Second + 13, ProbeTimeout: 500*time.Millisecond + 3, SettleTimeout: 5 * time.Second, ReconnectInterval: 10*time.Second + 17,
		Retention: 2 * time.Hour, MaintenanceInterval: 15*time.Minute + 13, AlertGCInterval: 30*time.Minute + 29, DispatchMaintenance: 30*time.Second + 7}
	faultsUntil := rng.Dur(2*time.Minute, 6*time.Minute)
	if rng.Bool(0.35) {
		faultsUntil = time.Millisecond // a fault-free run
	}
	p.Net = &NetPlan{MinDelay: 2*time.Millisecond + 11, FaultsUntil: faultsUntil}
	var relayA, relayB int
	var relayFrom, relayTo Dur
	if relay {
		relayA = rng.Intn(3)
		relayB = (relayA + 1 + rng.Intn(2)) % 3
		relayFrom, relayTo = 45*time.Second, rng.Dur(4*time.Minute, 9*time.Minute)
		p.Net.FaultsUntil = time.Millisecond // no loss, duplication or jitter
		p.Net.Parts = []Partition{{From: relayFrom, To: relayTo, A: []int{relayA}, B: []int{relayB}}}
		faultsUntil = relayTo
	} else if faultsUntil > time.Second {
		p.Net.DropPct = rng.Range(0, 30)
		p.Net.DupPct = rng.Range(0, 20)
		p.Net.Jitter = rng.Dur(0, 300*time.Millisecond)
		for c := rng.Range(0, 2); c > 0; c-- {
			from := rng.Dur(20*time.Second, faultsUntil-10*time.Second)
			p.Net.Parts = append(p.Net.Parts, Partition{From: from, To: min(faultsUntil, from+rng.Dur(5*time.Second, 90*time.Second)), A: []int{rng.Intn(n)}, OneWay: rng.Bool(0.3)})
		}
	}
	settle := faultsUntil + 12*pushpull + 40*time.Second
	p.Horizon = settle + rng.Dur(30*time.Second, 3*time.Minute)
	b := &planBuilder{p: p, used: map[Dur]bool{}}
	// silences of various encoded sizes, some in quick succession on one instance
	sizes := []int{5, 100, 400, 560, 600, 640, 680, 720, 800, 1200, 1390, 1500, 2200, 5000}
	ns := rng.Range(3, 10)
	for i := 0; i < ns; i++ {
		at := rng.Dur(15*time.Second, p.Horizon-20*time.Second)
		inst := rng.Intn(n)
		if p.Insts[inst].StartAt > 0 && at < p.Insts[inst].StartAt+10*time.Second {
			inst = 0
		}
		sz := Pick(rng, sizes)
		if relay && rng.Bool(0.8) {
			// small updates made on the two sides of the cut, mostly while it lasts
			inst = Pick(rng, []int{relayA, relayB})
			sz = Pick(rng, sizes[:3])
			if rng.Bool(0.7) {
				at = rng.Dur(15*time.Second, relayTo-40*time.Second)
			}
		}
		s := &PSilence{Key: fmt.Sprintf("s%d", i), Matchers: []M{{"alertname", "=", fmt.Sprintf("S%d", i)}}, EndOff: time.Hour, Comment: strings.Repeat("p", sz)}
		at = b.add(Action{At: at, Kind: "silence", Inst: inst, Sil: s})
		if rng.Bool(0.4) {
			// a burst: a second update on the same instance within one gossip interval
			i++
			s2 := &PSilence{Key: fmt.Sprintf("s%d", i), Matchers: []M{{"alertname", "=", fmt.Sprintf("S%d", i)}}, EndOff: time.Hour, Comment: strings.Repeat("q", Pick(rng, sizes[:6]))}
			b.add(Action{At: at + rng.Dur(time.Millisecond, 150*time.Millisecond), Kind: "silence", Inst: inst, Sil: s2})
		}
		pe := 0.3
		if relay {
			pe = 0.7 // new versions of silences the other side already knows
		}
		if et := at + rng.Dur(5*time.Second, 2*time.Minute); rng.Bool(pe) && et < p.Horizon-20*time.Second {
			b.add(Action{At: et, Kind: "expire", Inst: inst, SilKey: s.Key})
		}
	}
	// alerts to every instance (notification-log traffic from real flushes)
	ngroups := rng.Range(1, 4)
	if rng.Bool(0.3) {
		ngroups = rng.Range(8, 12) // a notification log whose full state exceeds one gossip packet
	}
	for c := ngroups; c > 0; c-- {
		at := rng.Dur(12*time.Second, p.Horizon/2)
		if relay && rng.Bool(0.7) {
			at = rng.Dur(relayFrom+25*time.Second, relayTo-3*time.Minute)
		}
		posts := []Dur{at}
		if relay || rng.Bool(0.3) {
			// a second alert of the same group later on: the group's log entry is updated
			posts = append(posts, at+rng.Dur(35*time.Second, 100*time.Second))
		}
		for k, at := range posts {
			ls := map[string]string{"alertname": fmt.Sprintf("N%d", c), "job": fmt.Sprintf("j%d", k)}
			for i := 0; i < n; i++ {
				t := at + Dur(i)*rng.Dur(time.Millisecond, 400*time.Millisecond)
				if p.Insts[i].StartAt > 0 && t < p.Insts[i].StartAt+time.Second {
					continue
				}
				e := 20 * time.Minute
				b.add(Action{At: t, Kind: "post", Inst: i, Alerts: []PAlert{{Labels: ls, EndOff: &e}}})
			}
		}
	}
	// foreign peer
	if !relay && rng.Bool(0.5) {
		ft := rng.Dur(20*time.Second, p.Horizon/2)
		b.add(Action{At: ft, Kind: "foreign_start"})
		if rng.Bool(0.7) {
			b.add(Action{At: ft - time.Millisecond, Kind: "foreign_state", Str: Pick(rng, []string{"bad-nfl-then-valid-sil", "unknown-then-valid-sil", "valid-sil-then-bad-nfl", "bad-sil-then-valid-sil", "valid"}), SilKey: "fstate", D: 2 * time.Hour})
		}
		for c := rng.Range(1, 6); c > 0; c-- {
			kind := Pick(rng, []string{"garbage", "unknown-key", "bad-sil-payload", "bad-nfl-payload", "truncated", "valid-sil", "dup-valid-sil"})
			b.add(Action{At: ft + rng.Dur(2*time.Second, p.Horizon/3), Kind: "foreign_bcast", Str: kind, SilKey: fmt.Sprintf("f%d", c), D: 2 * time.Hour})
		}
	}
	// probes
	for _, ip := range p.Insts {
		if ip.StartAt > 0 {
			b.add(Action{At: ip.StartAt + 8*time.Second, Kind: "cluster_probe", Str: "after-join:" + ip.Name})
		}
	}
	for c := rng.Range(3, 8); c > 0; c-- {
		b.add(Action{At: rng.Dur(10*time.Second, p.Horizon-time.Second), Kind: "cluster_probe", Str: "mid"})
	}
	if relay {
		for t := relayFrom + 40*time.Second; t < relayTo-2*time.Second; t += rng.Dur(15*time.Second, 40*time.Second) {
			b.add(Action{At: t, Kind: "cluster_probe", Str: "relay"})
		}
	}
	p.SortActions()
	// a gossip-latency probe 10 s after every silence operation
	var extra []Action
	for _, a := range p.Actions {
		if a.Kind == "silence" || a.Kind == "expire" {
			extra = append(extra, Action{At: a.At + 10*time.Second, Kind: "cluster_probe", Str: "gossip"})
		}
	}
	for _, a := range extra {
		if a.At < p.Horizon-time.Second {
			b.add(a)
		}
	}
	p.SortActions()
	p.Params = map[string]any{"settle": int64(settle), "faults_until": int64(faultsUntil), "pushpull": int64(pushpull)}
	if relay {
		p.Params["relay_from"], p.Params["relay_to"] = int64(relayFrom), int64(relayTo)
	}
	return p
}

func c19Check(p *Plan, r *RunResult) *Verdict {
	v := &Verdict{}
	views := parseViews(p, r.H)
	settle := Dur(pInt64(p, "settle"))
	faultsUntil := Dur(pInt64(p, "faults_until"))
	// what was created where and when (accepted API calls)
	type upd struct {
		T    Dur
		ID   string
		Inst string
		Size int
	}
	var ups []upd
	for _, rec := range r.H.API {
		if rec.Action < 0 || rec.Code != 200 {
			continue
		}
		a := &p.Actions[rec.Action]
		switch a.Kind {
		case "silence":
			ups = append(ups, upd{rec.T, silIDFromResp(rec.Resp), rec.Inst, len(rec.Body)})
		case "expire":
			// an expiry gossips the whole silence again: it is as large as the request that made it
			id := strings.TrimPrefix(rec.Path, "/api/v2/silence/")
			size := 0
			for _, u := range ups {
				if u.ID == id && u.Size > size {
					size = u.Size
				}
			}
			ups = append(ups, upd{rec.T, id, rec.Inst, size})
		}
	}
	startOf := map[string]Dur{}
	for _, e := range r.H.Events {
		if e.Kind == "start" {
			startOf[e.Inst] = e.T
		}
	}
	cut := func(from, to Dur) bool {
		for _, pt := range p.Net.Parts {
			if pt.From <= to && pt.To >= from {
				return true
			}
		}
		return false
	}
	foreignJoined, foreignAt := false, Dur(-1)
	for _, e := range r.H.Events {
		if e.Kind == "foreign-start" {
			foreignAt = e.T
			foreignJoined = e.Msg == "<nil>"
		}
	}
	seedOf := map[string][]string{}
	for _, ip := range p.Insts {
		for _, pi := range ip.Peers {
			seedOf[ip.Name] = append(seedOf[ip.Name], p.Insts[pi].Name)
		}
	}
	for _, pv := range views {
		switch {
		case pv.Tag == "final" && pv.T >= settle:
			// bounded liveness: everything accepted anywhere at least twelve push/pull
			// intervals + 40 s ago is everywhere
			bound := 12*Dur(pInt64(p, "pushpull")) + 40*time.Second
			newest := map[string]time.Time{}
			for _, vw := range pv.Views {
				if vw == nil {
					continue
				}
				for id, u := range vw.Sils {
					if u.After(newest[id]) {
						newest[id] = u
					}
				}
			}
			for _, u := range ups {
				if _, ok := newest[u.ID]; !ok && u.T < pv.T-bound {
					newest[u.ID] = time.Time{}
				}
			}
			for id, u := range newest {
				if pv.T-u.Sub(p.Start) < bound {
					delete(newest, id) // changed too recently for the guarantee
				}
			}
			for name, vw := range pv.Views {
				if vw == nil {
					continue
				}
				for id, want := range newest {
					v.Ob("every-update-reaches-every-instance")
					got, ok := vw.Sils[id]
					if !ok {
						v.Fail("C19", "C19/update-missing-after-faults-stopped", pv.T, "instance %s does not hold silence %s %v after network faults stopped at %v (twelve push/pull intervals + 40 s later)", name, id[:8], pv.T-faultsUntil, faultsUntil)
					} else if got.Before(want) {
						v.Fail("C19", "C19/stale-version-after-faults-stopped", pv.T, "instance %s holds silence %s updated at %v, the newest version (updated at %v) never arrived", name, id[:8], got.Sub(p.Start), want.Sub(p.Start))
					}
				}
			}
			// notification log: same keys with the same newest timestamps everywhere
			newestNf := map[string]time.Time{}
			for _, vw := range pv.Views {
				if vw != nil {
					for k, ts := range vw.Nf {
						if ts.After(newestNf[k]) {
							newestNf[k] = ts
						}
					}
				}
			}
			for name, vw := range pv.Views {
				if vw == nil {
					continue
				}
				for k, want := range newestNf {
					if pv.T-want.Sub(p.Start) < bound {
						continue // written too recently for the guarantee
					}
					v.Ob("every-log-entry-reaches-every-instance")
					if got, ok := vw.Nf[k]; !ok || got.Before(want) {
						v.Fail("C19", "C19/log-entry-missing-after-faults-stopped", pv.T, "instance %s does not hold the newest notification-log entry for %s (stamped %v)", name, k, want.Sub(p.Start))
					}
				}
			}
			// foreign valid silences (same message as malformed parts or not) must be merged
			for _, e := range r.H.Events {
				if e.Kind != "foreign-valid-silence" || pv.T-e.T < 12*Dur(pInt64(p, "pushpull"))+40*time.Second || e.T < faultsUntil || !foreignJoined {
					continue
				}
				for name, vw := range pv.Views {
					if vw == nil {
						continue
					}
					v.Ob("valid-foreign-part-is-merged")
					if _, ok := vw.Sils[e.Msg]; !ok {
						v.Fail("C19", "C19/valid-part-blocked-by-malformed-part", pv.T, "instance %s never merged the valid silence %s that a peer offered (possibly next to malformed or unknown parts) at %v", name, e.Msg[:8], e.T)
					}
				}
			}
		case pv.Tag == "relay":
			// relay phase (see the gossip case): every notification-log entry written at
			// least 10 s ago is held by every instance, also when it replaced an entry
			// the relaying neighbour already knew
			rf, rt := Dur(pInt64(p, "relay_from")), Dur(pInt64(p, "relay_to"))
			if rt == 0 || pv.T < rf+30*time.Second || pv.T > rt-time.Second || len(p.Net.Parts) != 1 {
				continue
			}
			newestNf := map[string]time.Time{}
			for _, vw := range pv.Views {
				if vw == nil {
					continue
				}
				for k, ts := range vw.Nf {
					if ts.After(newestNf[k]) {
						newestNf[k] = ts
					}
				}
			}
			for name, vw := range pv.Views {
				if vw == nil {
					continue
				}
				for k, want := range newestNf {
					if pv.T-want.Sub(p.Start) < 10*time.Second {
						continue
					}
					v.Ob("log-entry-relayed-by-common-neighbour")
					if got, ok := vw.Nf[k]; !ok || got.Before(want) {
						v.Fail("C19", "C19/log-entry-not-relayed", pv.T, "instance %s does not hold the notification-log entry for %s stamped %v (it holds %v) more than 10 s after it was written, although every instance is connected to a common neighbour over a loss-free network (one link is cut; next full-state exchange up to %v away)", name, k, want.Sub(p.Start), got.Sub(p.Start), Dur(pInt64(p, "pushpull")))
					}
				}
			}
		case pv.Tag == "gossip":
			// in a clean phase an update is everywhere within 10 s, long before the next push/pull
			at := pv.T - 10*time.Second
			// the version the originating instance holds, unless the silence was changed again since
			wantOf := func(u upd) (time.Time, bool) {
				for _, x := range ups {
					if x.ID == u.ID && x.T > u.T && x.T <= pv.T {
						return time.Time{}, false
					}
				}
				ov := pv.Views[u.Inst]
				if ov == nil {
					return time.Time{}, false
				}
				w, ok := ov.Sils[u.ID]
				return w, ok
			}
			if rf, rt := Dur(pInt64(p, "relay_from")), Dur(pInt64(p, "relay_to")); rt > 0 && at >= rf+20*time.Second && pv.T <= rt-time.Second && len(p.Net.Parts) == 1 {
				// relay phase: one link of a three-instance, loss-free cluster is cut. A small
				// update is gossiped to the common neighbour, which merges it and gossips it
				// on: it is everywhere within seconds, although the next full-state exchange
				// is minutes away.
				for _, u := range ups {
					if u.T != at || u.Size >= 600 || u.Size == 0 {
						continue
					}
					want, ok := wantOf(u)
					if !ok {
						continue
					}
					for name, vw := range pv.Views {
						if vw == nil {
							continue
						}
						v.Ob("update-relayed-by-common-neighbour")
						if got, ok := vw.Sils[u.ID]; !ok || got.Before(want) {
							v.Fail("C19", "C19/update-not-relayed", pv.T, "silence %s changed on %s at %v (request of %d bytes): %s does not hold that version 10 s later although both are connected to a common neighbour over a loss-free network (only one link is cut; next full-state exchange up to %v away)", u.ID[:8], u.Inst, u.T, u.Size, name, Dur(pInt64(p, "pushpull")))
						}
					}
				}
				continue
			}
			if at < faultsUntil+5*time.Second || cut(at-time.Second, pv.T) {
				continue
			}
			// Gossip picks random members and transmits a message a bounded number of
			// times, so in general only the periodic full-state exchange guarantees
			// delivery. Two cases are certain within seconds: an oversized update (sent
			// to every member over the reliable channel), and a small update in a
			// two-instance cluster (the only other member gets every transmission).
			allUp := true
			for _, ip := range p.Insts {
				if st, ok := startOf[ip.Name]; !ok || st > at-30*time.Second {
					allUp = false
				}
			}
			if !allUp {
				continue
			}
			for _, u := range ups {
				if u.T != at {
					continue
				}
				oversized := u.Size > 1000
				small2 := u.Size > 0 && u.Size < 600 && len(p.Insts) == 2 && foreignAt < 0
				if !oversized && !small2 {
					continue
				}
				for name, vw := range pv.Views {
					if vw == nil || startOf[name] > at-30*time.Second {
						continue
					}
					v.Ob("clean-phase-gossip-latency")
					want, known := wantOf(u)
					if got, ok := vw.Sils[u.ID]; !ok || (known && got.Before(want)) {
						v.Fail("C19", "C19/update-not-gossiped-in-clean-phase", pv.T, "silence %s (request of %d bytes) accepted by %s at %v is not held by %s 10 s later although the network is fault-free and the next full-state exchange is up to %v away", u.ID[:8], u.Size, u.Inst, u.T, name, Dur(pInt64(p, "pushpull")))
					}
				}
			}
		case strings.HasPrefix(pv.Tag, "after-join:"):
			name := strings.TrimPrefix(pv.Tag, "after-join:")
			jv := pv.Views[name]
			if jv == nil || pv.T < faultsUntil || cut(startOf[name], pv.T) {
				continue
			}
			for other, vw := range pv.Views {
				isSeed := false
				for _, sd := range seedOf[name] {
					if sd == other {
						isSeed = true
					}
				}
				if vw == nil || other == name || !isSeed {
					continue
				}
				for id := range vw.Sils {
					// held by a peer since before the join
					old := false
					for _, u := range ups {
						if u.ID == id && u.T < startOf[name]-5*time.Second {
							old = true
						}
					}
					if !old {
						continue
					}
					v.Ob("joiner-obtains-full-state")
					if _, ok := jv.Sils[id]; !ok {
						v.Fail("C19", "C19/joiner-missing-state", pv.T, "instance %s joined at %v; 8 s later it does not hold silence %s which %s has held since before the join", name, startOf[name], id[:8], other)
					}
				}
			}
		}
	}
	return v
}

func init() {
	Register(&Prop{
		ID: "C19", Level: "exploration", Gen: c19Gen, Check: c19Check,
		Rule:        "seeded run of 2-4 real clustered instances (real cluster.Peer, delegate, channel and memberlist over the simulated network), optional late joiner, 3-10 silences with comments of 5-5000 bytes (around the 700-byte gossip/reliable threshold and beyond the 1400-byte packet), bursts of two updates within one gossip interval, expirations, alerts posted to every instance (notification-log gossip from real flushes), packet drop 0-30 %, duplication 0-20 %, jitter, 0-2 partitions until a chosen instant (a third of the runs are fault-free), push/pull every 20 s/45 s/5 min, and in half of the runs a foreign memberlist node offering garbage, unknown keys, truncated and malformed payloads, duplicates and full states that mix malformed with valid parts. Views of every instance are recorded 10 s after each update, 8 s after a late join, at random instants and at the end (two push/pull intervals + 40 s after faults stop). Non-trivial: a view was judged; distinct by abstract trace incl. net-fault counts.",
		Real:        []string{"app.New wiring with clustering", "cluster.Peer, delegate, Channel (gossip queue / oversized reliable sends)", "hashicorp/memberlist (probe, gossip, push/pull, TCP user messages; math/rand aliased to the order-insensitive source)", "silence and nflog Merge/MarshalBinary", "dispatch + notify pipeline incl. cluster wait stages"},
		Stub:        []string{"clock (synctest)", "network: simnet transport (non-blocking, per-packet drop/dup/delay, partitions, net.Pipe streams)", "receiver endpoint", "snapshot disk (simfs)", "foreign peer: bare memberlist node owned by the simulator"},
		Assumptions: []string{"one shared clock for all instances", "after faults stop, two push/pull intervals + 40 s are allowed for convergence; in a fault-free phase 10 s for gossip"},
	})
}
