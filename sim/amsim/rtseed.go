package amsim

import _ "unsafe" // go:linkname

// runtimeVerifSeed is runtime.verifSeed of the overlaid Go runtime (see
// sim/cmd/genoverlay): when non-zero, the firing order of synctest timers due
// at the same instant, the polling order of select with several ready cases and
// the hash seed / iteration start of maps used inside a bubble are drawn from a
// per-bubble sequence derived from it instead of the runtime's unseeded source.
//
//go:linkname runtimeVerifSeed runtime.verifSeed
var runtimeVerifSeed uint64

// seedRuntime makes the runtime's tie-breaking a function of the plan's seed.
func seedRuntime(seed uint64) { runtimeVerifSeed = mix64(seed^0x7f4a7c15) | 1 }

// runtimeGoidFn is runtime.verifGoidFn of the overlaid runtime: the id of the
// calling goroutine.
//
//go:linkname runtimeGoidFn runtime.verifGoidFn
var runtimeGoidFn func() uint64
