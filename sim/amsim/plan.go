package amsim

import (
	"fmt"
	"sort"
	"strconv"
	"strings"
	"time"
)

type Dur = time.Duration

// M is one label matcher. Op is one of = != =~ !~.
type M struct {
	Name  string `json:"n"`
	Op    string `json:"op"`
	Value string `json:"v"`
}

func (m M) String() string { return m.Name + m.Op + strconv.Quote(m.Value) }

// Route is one node of a generated routing tree (zero / nil = not set, inherited).
type Route struct {
	Receiver       string   `json:"receiver,omitempty"`
	Matchers       []M      `json:"matchers,omitempty"`
	GroupBy        []string `json:"group_by,omitempty"` // ["..."] = all labels
	GroupBySet     bool     `json:"group_by_set,omitempty"`
	GroupWait      Dur      `json:"group_wait,omitempty"`
	GroupWaitSet   bool     `json:"group_wait_set,omitempty"`
	GroupInterval  Dur      `json:"group_interval,omitempty"`
	RepeatInterval Dur      `json:"repeat_interval,omitempty"`
	Continue       bool     `json:"continue,omitempty"`
	Mute           []string `json:"mute,omitempty"`
	Active         []string `json:"active,omitempty"`
	Routes         []*Route `json:"routes,omitempty"`
}

type Webhook struct {
	SendResolved bool `json:"send_resolved"`
	MaxAlerts    int  `json:"max_alerts,omitempty"`
	Timeout      Dur  `json:"timeout,omitempty"`
}

type Receiver struct {
	Name     string    `json:"name"`
	Webhooks []Webhook `json:"webhooks"`
}

type Inhibit struct {
	Source []M      `json:"source"`
	Target []M      `json:"target"`
	Equal  []string `json:"equal,omitempty"`
}

// TISpec is one time_interval entry, in the configuration's own notation.
type TISpec struct {
	Times       [][2]string `json:"times,omitempty"` // "HH:MM" pairs
	Weekdays    []string    `json:"weekdays,omitempty"`
	DaysOfMonth []string    `json:"days_of_month,omitempty"`
	Months      []string    `json:"months,omitempty"`
	Years       []string    `json:"years,omitempty"`
	Location    string      `json:"location,omitempty"`
}

type TimeInterval struct {
	Name  string   `json:"name"`
	Specs []TISpec `json:"specs"`
}

type Config struct {
	ResolveTimeout Dur            `json:"resolve_timeout,omitempty"`
	Route          *Route         `json:"route"`
	Receivers      []Receiver     `json:"receivers"`
	Inhibits       []Inhibit      `json:"inhibits,omitempty"`
	Intervals      []TimeInterval `json:"intervals,omitempty"`
	// Raw, when set, is written instead of the rendered YAML (invalid reloads).
	Raw string `json:"raw,omitempty"`
}

func ydur(d Dur) string { return fmt.Sprintf("%dms", d.Milliseconds()) }

func yq(s string) string { return "'" + strings.ReplaceAll(s, "'", "''") + "'" }

func ymatchers(ms []M) string {
	var parts []string
	for _, m := range ms {
		parts = append(parts, yq(m.String()))
	}
	return "[" + strings.Join(parts, ", ") + "]"
}

func ylist(xs []string) string {
	var parts []string
	for _, x := range xs {
		parts = append(parts, yq(x))
	}
	return "[" + strings.Join(parts, ", ") + "]"
}

func (r *Route) yaml(b *strings.Builder, ind string, first bool) {
	p := func(format string, a ...any) {
		pre := ind
		if first {
			pre = ind[:len(ind)-2] + "- "
			first = false
		}
		fmt.Fprintf(b, pre+format+"\n", a...)
	}
	if r.Receiver != "" {
		p("receiver: %s", yq(r.Receiver))
	}
	if len(r.Matchers) > 0 {
		p("matchers: %s", ymatchers(r.Matchers))
	}
	if r.GroupBySet {
		p("group_by: %s", ylist(r.GroupBy))
	}
	if r.GroupWaitSet {
		p("group_wait: %s", ydur(r.GroupWait))
	}
	if r.GroupInterval > 0 {
		p("group_interval: %s", ydur(r.GroupInterval))
	}
	if r.RepeatInterval > 0 {
		p("repeat_interval: %s", ydur(r.RepeatInterval))
	}
	if r.Continue {
		p("continue: true")
	}
	if len(r.Mute) > 0 {
		p("mute_time_intervals: %s", ylist(r.Mute))
	}
	if len(r.Active) > 0 {
		p("active_time_intervals: %s", ylist(r.Active))
	}
	if first {
		p("continue: false")
	}
	if len(r.Routes) > 0 {
		p("routes:")
		for _, c := range r.Routes {
			c.yaml(b, ind+"  ", true)
		}
	}
}

// WebhookURL is the address the simulated receiver world answers on.
func WebhookURL(inst, receiver string, idx int) string {
	return fmt.Sprintf("http://am.sim/%s/%s/%d", inst, receiver, idx)
}

// YAML renders the configuration file for one instance.
func (c *Config) YAML(inst string) string {
	if c.Raw != "" {
		return c.Raw
	}
	var b strings.Builder
	if c.ResolveTimeout > 0 {
		fmt.Fprintf(&b, "global:\n  resolve_timeout: %s\n", ydur(c.ResolveTimeout))
	}
	b.WriteString("route:\n")
	c.Route.yaml(&b, "  ", false)
	b.WriteString("receivers:\n")
	for _, rc := range c.Receivers {
		fmt.Fprintf(&b, "- name: %s\n", yq(rc.Name))
		if len(rc.Webhooks) > 0 {
			b.WriteString("  webhook_configs:\n")
		}
		for i, w := range rc.Webhooks {
			fmt.Fprintf(&b, "  - url: %s\n    send_resolved: %v\n", yq(WebhookURL(inst, rc.Name, i)), w.SendResolved)
			if w.MaxAlerts > 0 {
				fmt.Fprintf(&b, "    max_alerts: %d\n", w.MaxAlerts)
			}
			if w.Timeout > 0 {
				fmt.Fprintf(&b, "    timeout: %s\n", ydur(w.Timeout))
			}
		}
	}
	if len(c.Inhibits) > 0 {
		b.WriteString("inhibit_rules:\n")
		for _, ih := range c.Inhibits {
			fmt.Fprintf(&b, "- source_matchers: %s\n  target_matchers: %s\n", ymatchers(ih.Source), ymatchers(ih.Target))
			if len(ih.Equal) > 0 {
				fmt.Fprintf(&b, "  equal: %s\n", ylist(ih.Equal))
			}
		}
	}
	if len(c.Intervals) > 0 {
		b.WriteString("time_intervals:\n")
		for _, ti := range c.Intervals {
			fmt.Fprintf(&b, "- name: %s\n  time_intervals:\n", yq(ti.Name))
			for _, s := range ti.Specs {
				first := true
				p := func(format string, a ...any) {
					pre := "    "
					if first {
						pre = "  - "
						first = false
					}
					fmt.Fprintf(&b, pre+format+"\n", a...)
				}
				if len(s.Times) > 0 {
					p("times:")
					for _, t := range s.Times {
						fmt.Fprintf(&b, "    - start_time: %s\n      end_time: %s\n", yq(t[0]), yq(t[1]))
					}
				}
				if len(s.Weekdays) > 0 {
					p("weekdays: %s", ylist(s.Weekdays))
				}
				if len(s.DaysOfMonth) > 0 {
					p("days_of_month: %s", ylist(s.DaysOfMonth))
				}
				if len(s.Months) > 0 {
					p("months: %s", ylist(s.Months))
				}
				if len(s.Years) > 0 {
					p("years: %s", ylist(s.Years))
				}
				if s.Location != "" {
					p("location: %s", yq(s.Location))
				}
				if first {
					p("weekdays: ['monday:sunday']")
				}
			}
		}
	}
	return b.String()
}

// PAlert is one alert of a POST /api/v2/alerts action. Times are offsets from
// the action instant; nil = field omitted.
type PAlert struct {
	Labels      map[string]string `json:"labels"`
	Annotations map[string]string `json:"annotations,omitempty"`
	StartOff    *Dur              `json:"start_off,omitempty"`
	EndOff      *Dur              `json:"end_off,omitempty"`
	// StartAbs/EndAbs (offset from plan start) take precedence over *Off.
	StartAbs *Dur `json:"start_abs,omitempty"`
	EndAbs   *Dur `json:"end_abs,omitempty"`
}

// PSilence describes a silence create/edit action.
type PSilence struct {
	Key       string `json:"key"`               // plan-level name; the run maps it to the id the API returned
	EditOf    string `json:"edit_of,omitempty"` // key whose current id is sent as "id"
	Matchers  []M    `json:"matchers"`
	StartOff  Dur    `json:"start_off"` // from the action instant
	EndOff    Dur    `json:"end_off"`
	Comment   string `json:"comment,omitempty"`
	CreatedBy string `json:"created_by,omitempty"`
	// KeepStart/KeepEnd: send the currently stored start/end of EditOf instead of the offsets.
	KeepStart bool `json:"keep_start,omitempty"`
	KeepEnd   bool `json:"keep_end,omitempty"`
	// RawID, when set, is sent as the id (unknown-id edits).
	RawID string `json:"raw_id,omitempty"`
}

// Action is one timed step of the client workload or fault schedule.
type Action struct {
	At   Dur    `json:"at"` // offset from plan start
	Inst int    `json:"inst,omitempty"`
	Kind string `json:"kind"`

	Alerts  []PAlert          `json:"alerts,omitempty"`
	Sil     *PSilence         `json:"sil,omitempty"`
	SilKey  string            `json:"sil_key,omitempty"`
	Cfg     int               `json:"cfg,omitempty"`
	Query   string            `json:"query,omitempty"`
	Labels  map[string]string `json:"labels,omitempty"`
	N       int               `json:"n,omitempty"`
	Str     string            `json:"str,omitempty"`
	D       Dur               `json:"d,omitempty"`
	Blob    []byte            `json:"blob,omitempty"`
	Entries []PEntry          `json:"entries,omitempty"`
}

// RcvFault makes one integration of one receiver misbehave for requests that
// arrive in [From,To) (offsets from plan start).
type RcvFault struct {
	Inst     int    `json:"inst"` // -1 = every instance
	Receiver string `json:"receiver"`
	Integ    int    `json:"integ"`
	From     Dur    `json:"from"`
	To       Dur    `json:"to"`
	Mode     string `json:"mode"` // 5xx 4xx hang reset slow
	Latency  Dur    `json:"latency,omitempty"`
}

// Hold delays a goroutine that reaches a yield site with a matching key.
type Hold struct {
	Site  string `json:"site"`
	Match string `json:"match"` // substring of the canonical key
	Delay Dur    `json:"delay"`
	// Nth (sites "auto.*" only): the hold applies to the Nth (0-based) automatic yield
	// that the ingestion worker processing the update matched by Match passes.
	Nth int `json:"nth,omitempty"`
	// From/To (site "auto.lock" only, To > 0): the hold applies only while the run's
	// clock is in [From, To); with Nth < 0 it then applies to every acquisition.
	From Dur `json:"from,omitempty"`
	To   Dur `json:"to,omitempty"`
}

// InstOpts are the app.Options the scenario varies.
type InstOpts struct {
	Retention           Dur `json:"retention"`
	MaintenanceInterval Dur `json:"maintenance_interval"`
	AlertGCInterval     Dur `json:"alert_gc_interval"`
	DispatchMaintenance Dur `json:"dispatch_maintenance"`
	DispatchStartDelay  Dur `json:"dispatch_start_delay,omitempty"`
	PerAlertNameLimit   int `json:"per_alert_name_limit,omitempty"`
	MaxSilences         int `json:"max_silences,omitempty"`
	MaxSilenceSize      int `json:"max_silence_size,omitempty"`
	GetConcurrency      int `json:"get_concurrency,omitempty"`
	Workers             int `json:"workers,omitempty"` // ingestion workers (2..8; through the dispatch.concurrency hook)

	// Cluster.
	Cluster           bool `json:"cluster,omitempty"`
	PeerTimeout       Dur  `json:"peer_timeout,omitempty"`
	GossipInterval    Dur  `json:"gossip_interval,omitempty"`
	PushPullInterval  Dur  `json:"push_pull_interval,omitempty"`
	ProbeInterval     Dur  `json:"probe_interval,omitempty"`
	ProbeTimeout      Dur  `json:"probe_timeout,omitempty"`
	SettleTimeout     Dur  `json:"settle_timeout,omitempty"`
	ReconnectInterval Dur  `json:"reconnect_interval,omitempty"`
}

type InstPlan struct {
	Name    string `json:"name"`
	StartAt Dur    `json:"start_at"` // offset from plan start (may be 0)
	Cfg     int    `json:"cfg"`
	Peers   []int  `json:"peers,omitempty"`
}

// Plan is one complete simulated run: a pure function of it and the code.
type Plan struct {
	Prop    string     `json:"prop"`
	Family  string     `json:"family"`
	Seed    uint64     `json:"seed"`
	Start   time.Time  `json:"start"`
	Horizon Dur        `json:"horizon"`
	Opts    InstOpts   `json:"opts"`
	Insts   []InstPlan `json:"insts"`
	Configs []*Config  `json:"configs"`
	Actions []Action   `json:"actions"`
	Faults  []RcvFault `json:"rcv_faults,omitempty"`
	Holds   []Hold     `json:"holds,omitempty"`
	// RecvJitter > 0: every ingestion worker is delayed, between taking an alert
	// and routing it, by a duration below RecvJitter that is a function of the
	// alert's whole content. Versions of one alert submitted at the same instant
	// are then inserted in an order the plan decides, not the Go scheduler.
	RecvJitter Dur      `json:"recv_jitter,omitempty"`
	Net        *NetPlan `json:"net,omitempty"`
	// Vers are crafted versions of replicated records that "deliver" actions refer to.
	Vers []PVer `json:"vers,omitempty"`
	// LabelSets are the label sets probes are made for.
	LabelSets []map[string]string `json:"label_sets,omitempty"`
	// Params carries property-specific knobs the oracle needs.
	Params map[string]any `json:"params,omitempty"`
}

// NetPlan is the gossip fault schedule (cluster family).
type NetPlan struct {
	DropPct  int         `json:"drop_pct,omitempty"`
	DupPct   int         `json:"dup_pct,omitempty"`
	MinDelay Dur         `json:"min_delay"`
	Jitter   Dur         `json:"jitter,omitempty"`
	Parts    []Partition `json:"partitions,omitempty"`
	// FaultsUntil: drops/dups/jitter apply only before this offset (0 = always).
	FaultsUntil Dur `json:"faults_until,omitempty"`
}

type Partition struct {
	From   Dur   `json:"from"`
	To     Dur   `json:"to"`
	A      []int `json:"a"`           // instance indexes on one side; everyone else on the other
	B      []int `json:"b,omitempty"` // when set, only the links between A and B are cut
	OneWay bool  `json:"one_way,omitempty"`
}

// PEntry names a crafted record version (states family).
type PEntry struct {
	Key string `json:"key"`
	Ver int    `json:"ver"`
}

// PVer is one crafted version of a replicated record. Offsets are from plan start.
type PVer struct {
	Key        string            `json:"key"`
	Ver        int               `json:"ver"`
	UpdatedOff Dur               `json:"updated_off"`
	StartOff   Dur               `json:"start_off,omitempty"`
	EndOff     Dur               `json:"end_off,omitempty"`
	ExpiresOff Dur               `json:"expires_off,omitempty"`
	Sets       [][]M             `json:"sets,omitempty"`
	Comment    string            `json:"comment,omitempty"`
	Firing     []uint64          `json:"firing,omitempty"`
	Resolved   []uint64          `json:"resolved,omitempty"`
	Data       map[string]string `json:"data,omitempty"`
}

func (p *Plan) SortActions() {
	sort.SliceStable(p.Actions, func(i, j int) bool { return p.Actions[i].At < p.Actions[j].At })
}

func labelsKey(ls map[string]string) string {
	keys := make([]string, 0, len(ls))
	for k := range ls {
		keys = append(keys, k)
	}
	sort.Strings(keys)
	var b strings.Builder
	b.WriteByte('{')
	for i, k := range keys {
		if i > 0 {
			b.WriteByte(',')
		}
		b.WriteString(k)
		b.WriteByte('=')
		b.WriteString(strconv.Quote(ls[k]))
	}
	b.WriteByte('}')
	return b.String()
}

// Functions of the instrumented packages that acquire a lock (see
// sim/cmd/genoverlay instrumentLocks; the current list is written to
// gen/autosites.json at build time). A name that no longer exists never fires.
var (
	// called by ingestion workers, group run loops (flush) and GC goroutines
	AutoSitesStore = []string{"store.Alerts.SetIfNotOlder", "store.Alerts.Get", "store.Alerts.Set", "store.Alerts.DeleteIfNotModified",
		"store.Alerts.Destroyed", "store.Alerts.Empty", "store.Alerts.List", "store.Alerts.Len", "store.Alerts.gcAlerts", "store.Alerts.gcLimitBuckets",
		"mem.Alerts.gcAlerts", "mem.Alerts.gcListeners", "mem.Alerts.Subscribe", "mem.Alerts.SlurpAndSubscribe"}
	// the subset on the ingestion path (where the oracles already allow for holds of
	// this size), after a successful notification, and in the GC goroutines; a
	// suspension before the flush's own reads would shift the flush against its timer
	AutoSitesIngest = []string{"store.Alerts.SetIfNotOlder", "store.Alerts.Destroyed", "store.Alerts.DeleteIfNotModified", "store.Alerts.gcAlerts", "mem.Alerts.gcAlerts"}
	// called by the maintenance goroutines and the notification pipeline
	AutoSitesNflog   = []string{"nflog.Log.GC", "nflog.Log.Snapshot", "nflog.Log.Log", "nflog.Log.Query", "nflog.Log.Merge", "nflog.Log.MarshalBinary"}
	AutoSitesSilence = []string{"silence.Silences.GC", "silence.Silences.Snapshot", "silence.Silences.MarshalBinary", "silence.Silences.Merge"}
)

// AutoHolds draws n one-shot suspensions: the goroutine (never the driver) that
// performs the k-th lock acquisition of the run inside one of the named
// functions, while holding no instrumented lock, sleeps for a duration between
// lo and hi right before it.
func AutoHolds(r *Rng, names []string, n, maxNth int, lo, hi Dur) []Hold {
	var out []Hold
	for i := 0; i < n; i++ {
		k := r.Intn(maxNth)
		if r.Bool(0.5) {
			k = r.Intn(1 + maxNth/8) // early acquisitions are the ones every run reaches
		}
		out = append(out, Hold{Site: "auto.lock", Match: Pick(r, names), Nth: k, Delay: r.Dur(lo, hi) + 5})
	}
	return out
}

// AutoSlack is the total time the plan's one-shot suspensions can add to a
// background activity (a maintenance GC, a snapshot).
func (p *Plan) AutoSlack() Dur {
	var d Dur
	for _, h := range p.Holds {
		if h.Site == "auto.lock" {
			d += h.Delay
		}
	}
	return d
}
