package amsim

import (
	"bufio"
	"bytes"
	"errors"
	"fmt"
	"io"
	"math"
	"sort"
	"time"

	"google.golang.org/protobuf/encoding/protodelim"

	"github.com/prometheus/alertmanager/nflog/nflogpb"
)

// ---------- sequences of notifications per (receiver, integration, group key) ----------

type seqKey struct {
	Receiver string
	Integ    int
	GKey     string
}

func (m *Model) seqs() map[seqKey][]*Notif {
	out := map[seqKey][]*Notif{}
	for _, n := range m.H.Notifs {
		if !m.mine(n) {
			continue
		}
		k := seqKey{n.Receiver, n.Integ, n.GroupKey}
		out[k] = append(out[k], n)
	}
	for _, s := range out {
		sort.SliceStable(s, func(i, j int) bool {
			if s[i].T != s[j].T {
				return s[i].T < s[j].T
			}
			return s[i].Seq < s[j].Seq
		})
	}
	return out
}

func sortedSeqKeys(m map[seqKey][]*Notif) []seqKey {
	ks := make([]seqKey, 0, len(m))
	for k := range m {
		ks = append(ks, k)
	}
	sort.Slice(ks, func(i, j int) bool {
		if ks[i].Receiver != ks[j].Receiver {
			return ks[i].Receiver < ks[j].Receiver
		}
		if ks[i].Integ != ks[j].Integ {
			return ks[i].Integ < ks[j].Integ
		}
		return ks[i].GKey < ks[j].GKey
	})
	return ks
}

// routeOpts returns the (min,max) repeat and group intervals over the candidate
// routes of a notification, and whether any candidate exists.
func (m *Model) routeOpts(n *Notif) (repMin, repMax, giMin, giMax, gwMin Dur, ok bool) {
	repMin, giMin, gwMin = math.MaxInt64, math.MaxInt64, math.MaxInt64
	for r := range m.RoutesOf(n) {
		ok = true
		rep := m.repAt(r, n.T)
		repMin, repMax = min(repMin, rep), max(repMax, rep)
		giMin, giMax = min(giMin, r.GroupInterval), max(giMax, r.GroupInterval)
		gwMin = min(gwMin, r.GroupWait)
	}
	return
}

func (m *Model) webhook(receiver string, integ int) *Webhook {
	rc := m.receiver(receiver)
	if rc == nil || integ >= len(rc.Webhooks) {
		return nil
	}
	return &rc.Webhooks[integ]
}

func subset(a, b map[string]bool) bool {
	for k := range a {
		if !b[k] {
			return false
		}
	}
	return true
}

// members returns the label keys of all alerts that belong to group (r, gl).
func (m *Model) members(r *MRoute, gl map[string]string) []string {
	var out []string
	for _, lk := range sortedKeys(m.Labels) {
		ls := m.Labels[lk]
		in := false
		for _, x := range m.Root.Match(ls) {
			if x == r {
				in = true
			}
		}
		if in && sameLabels(r.GroupLabels(ls), gl) {
			out = append(out, lk)
		}
	}
	return out
}

// crashedBetween reports a crash of the instance in [from,to].
func (m *Model) crashedBetween(from, to Dur) bool {
	for _, e := range m.H.Events {
		if e.Inst == m.Name && e.Kind == "crash" && e.T >= from && e.T <= to {
			return true
		}
	}
	return false
}

func (m *Model) retention() Dur {
	if m.P.Opts.Retention > 0 {
		return m.P.Opts.Retention
	}
	return 120 * time.Hour
}

// checkJustified (C04): every notification attempt must be justified against the
// previous delivered one for the same group and integration.
func checkJustified(prop string, m *Model, v *Verdict) {
	seqs := m.seqs()
	for _, k := range sortedSeqKeys(seqs) {
		s := seqs[k]
		wh := m.webhook(k.Receiver, k.Integ)
		if wh == nil || wh.MaxAlerts > 0 {
			continue // a truncated payload does not show the whole batch
		}
		for i, n2 := range s {
			var n1 *Notif
			for j := 0; j < len(s); j++ {
				if j != i && s[j].OK() && s[j].Done <= n2.T && (n1 == nil || s[j].Done > n1.Done) {
					n1 = s[j]
				}
			}
			f2, r2 := n2.Firing(), n2.Resolved()
			if len(f2) == 0 {
				// empty-notification clause
				v.Ob("no-firing-notification-follows-a-firing-one")
				if n1 == nil || len(n1.Firing()) == 0 {
					if !m.crashedBetween(0, n2.T) {
						prev := "none"
						if n1 != nil {
							prev = notifBrief(n1)
						}
						v.Fail(prop, prop+"/resolved-only-notification-without-preceding-firing-one", n2.T,
							"notification to %s/%d for group %s at %v lists no firing alert (%s) but the previous delivered one is: %s", k.Receiver, k.Integ, k.GKey, n2.T, notifBrief(n2), prev)
					}
				}
			}
			if n1 == nil {
				continue
			}
			repMin, _, _, _, _, ok := m.routeOpts(n2)
			if !ok {
				continue
			}
			v.Ob("notification-justified")
			f1, r1 := n1.Firing(), n1.Resolved()
			if !subset(f2, f1) {
				m.H.Probe("justified:new-firing")
				continue
			}
			if wh.SendResolved && !subset(r2, r1) {
				m.H.Probe("justified:new-resolved")
				continue
			}
			thr := repMin
			if m.retention() < thr {
				thr = m.retention()
			}
			// the entry written for n1 lives min(retention, 2*repeat_interval as configured
			// then); after a reload that raised repeat_interval it can be gone earlier
			for r := range m.RoutesOf(n2) {
				if e := 2 * m.repAt(r, n1.T); e < thr {
					thr = e
				}
			}
			if n2.T-n1.Done > thr-time.Millisecond {
				m.H.Probe("justified:repeat-interval")
				continue
			}
			if m.crashedBetween(n1.T, n2.T) {
				m.H.Probe("justified:crash")
				continue
			}
			// a moment with no firing, unsuppressed alert in the group starts a new cycle
			newCycle := false
			for r := range m.RoutesOf(n2) {
				mem := m.members(r, n2.GroupLabels)
				cal := len(r.Mute) > 0 || len(r.Active) > 0
				// The dispatcher's copy of an alert may lag the submission by an ingestion
				// hold (up to 2 s) while silences and inhibition are evaluated up to date: a
				// member counts as absent at t if it is ineligible at some instant within
				// that lag of t.
				const lag = 2100 * time.Millisecond
				if m.Sometime(n1.Done-eps, n2.T+eps, cal, func(t Dur) bool {
					for _, lk := range mem {
						if !m.Sometime(t-lag, t+lag, cal, func(u Dur) bool { return !m.Eligible(lk, r, u) }) {
							return false
						}
					}
					return true
				}) {
					newCycle = true
				}
			}
			if newCycle {
				m.H.Probe("justified:new-cycle")
				continue
			}
			v.Fail(prop, prop+"/unjustified-notification", n2.T,
				"notification to %s/%d for group %s at %v (%s) repeats the previous delivered one at %v (%s) after only %v (repeat_interval %v), with no new firing alert, no new resolved alert (send_resolved=%v) and no moment without a firing unsuppressed alert in between",
				k.Receiver, k.Integ, k.GKey, n2.T, notifBrief(n2), n1.Done, notifBrief(n1), n2.T-n1.Done, repMin, wh.SendResolved)
		}
	}
}

// checkRepeatOnTime (C04 timeliness): an unchanged firing group is re-notified
// within repeat_interval + max(group_interval, flush time-out) (+ slack).
func checkRepeatOnTime(prop string, m *Model, v *Verdict) {
	seqs := m.seqs()
	for _, k := range sortedSeqKeys(seqs) {
		s := seqs[k]
		for _, n1 := range s {
			if !n1.OK() || len(n1.Firing()) == 0 {
				continue
			}
			rs := m.RoutesOf(n1)
			if len(rs) != 1 {
				continue
			}
			var r *MRoute
			for x := range rs {
				r = x
			}
			rep := m.repAt(r, n1.T)
			if rep > m.retention() {
				continue
			}
			// The group's timer is re-armed when a flush starts, so flushes start every
			// max(group_interval, duration of the previous flush) and a flush lasts at
			// most the flush time-out (a failing sibling integration can stretch it that
			// far); this integration is healthy, its own delivery takes milliseconds.
			deadline := n1.Done + rep + flushTimeout(r.GroupInterval) + c01Slack
			if deadline > m.P.Horizon-time.Second {
				continue
			}
			if m.FaultIn(k.Receiver, k.Integ, n1.T-eps, deadline) || m.Disturbed(n1.T-eps, deadline) {
				continue
			}
			mem := m.members(r, n1.GroupLabels)
			f1 := n1.Firing()
			cal := len(r.Mute) > 0 || len(r.Active) > 0
			constant := m.Throughout(n1.T-c01Slack, deadline, cal, func(t Dur) bool {
				for _, lk := range mem {
					if m.Eligible(lk, r, t) != f1[lk] {
						return false
					}
				}
				return true
			})
			if !constant {
				continue
			}
			v.Ob("repeat-arrives-on-time")
			found := false
			for _, n2 := range s {
				if n2.OK() && n2.Done > n1.Done && n2.Done <= deadline {
					found = true
				}
			}
			if !found {
				v.Fail(prop, prop+"/repeat-missing", deadline,
					"group %s (%s/%d) was notified at %v (%s), stayed unchanged and healthy, but was not re-notified by %v (repeat_interval %v + group_interval %v + slack)",
					k.GKey, k.Receiver, k.Integ, n1.Done, notifBrief(n1), deadline, rep, r.GroupInterval)
			}
		}
	}
}

// checkResolved (C05).
func checkResolved(prop string, m *Model, v *Verdict) {
	seqs := m.seqs()
	for _, k := range sortedSeqKeys(seqs) {
		s := seqs[k]
		wh := m.webhook(k.Receiver, k.Integ)
		if wh == nil {
			continue
		}
		for _, n := range s {
			res := n.Resolved()
			// (2) send_resolved off: never a resolved alert in a payload
			v.Ob("send_resolved-off-never-lists-resolved")
			if !wh.SendResolved && len(res) > 0 {
				v.Fail(prop, prop+"/resolved-listed-although-send_resolved-off", n.T, "notification to %s/%d (send_resolved: false) for group %s lists resolved alerts: %s", k.Receiver, k.Integ, k.GKey, notifBrief(n))
			}
			// (3) resolved only when true
			_, _, _, giMax, _, ok := m.routeOpts(n)
			if !ok {
				giMax = 5 * time.Minute
			}
			win := flushTimeout(giMax) + c01Slack
			for _, a := range n.Alerts {
				if a.Status != "resolved" {
					continue
				}
				v.Ob("resolved-only-when-end-passed")
				if a.EndsAt.After(m.P.Start.Add(n.T)) {
					v.Fail(prop, prop+"/resolved-before-end-time", n.T, "alert %s listed as resolved at %v with an end time in the future (%v)", a.LKey, n.T, a.EndsAt.Sub(m.P.Start))
					continue
				}
				if _, known := m.Labels[a.LKey]; known && m.Throughout(n.T-win, n.T, false, func(t Dur) bool { return m.Firing(a.LKey, t) }) {
					v.Fail(prop, prop+"/resolved-while-firing", n.T, "alert %s listed as resolved at %v although by the ingestion contract it fired throughout [%v,%v]", a.LKey, n.T, n.T-win, n.T)
				}
			}
			// dual: listed firing although resolved for the whole flush window and before
			for _, a := range n.Alerts {
				if a.Status != "firing" {
					continue
				}
				if _, known := m.Labels[a.LKey]; !known {
					continue
				}
				v.Ob("firing-only-when-firing")
				if m.Throughout(n.T-win-c01Slack, n.T, false, func(t Dur) bool { return !m.Firing(a.LKey, t) }) {
					v.Fail(prop, prop+"/firing-while-resolved", n.T, "alert %s listed as firing at %v although by the ingestion contract it was resolved throughout [%v,%v]", a.LKey, n.T, n.T-win-c01Slack, n.T)
				}
			}
		}
		if !wh.SendResolved || wh.MaxAlerts > 0 {
			continue
		}
		// (1) resolution reported at the next flush
		for _, n1 := range s {
			if !n1.OK() {
				continue
			}
			rs := m.RoutesOf(n1)
			if len(rs) != 1 {
				continue
			}
			var r *MRoute
			for x := range rs {
				r = x
			}
			cal := len(r.Mute) > 0 || len(r.Active) > 0
			B := r.GroupInterval + flushTimeout(r.GroupInterval) + c01Slack
			for lk := range n1.Firing() {
				if _, known := m.Labels[lk]; !known {
					continue
				}
				// first instant after n1 at which the alert is resolved
				var e Dur = -1
				for _, t := range m.samplePoints(n1.Done, m.P.Horizon, false) {
					if !m.Firing(lk, t) {
						e = t
						break
					}
				}
				if e < 0 || e+B > m.P.Horizon-time.Second {
					continue
				}
				// n1 must still be the latest delivered listing at e (no later delivered notification before e)
				later := false
				for _, x := range s {
					if x.OK() && x.Done > n1.Done && x.Done <= e+eps {
						later = true
					}
				}
				if later {
					continue
				}
				// premises over [e-eps, e+B]: stays resolved, never suppressed, integration healthy, instance undisturbed
				ls := m.Labels[lk]
				if !m.Throughout(e+time.Millisecond, e+B, cal, func(t Dur) bool {
					if m.Firing(lk, t) || m.Suppressed(ls, t) {
						return false
					}
					if cal {
						if muted, _ := m.TimeMuted(r, t); muted {
							return false
						}
					}
					return true
				}) || m.Suppressed(ls, e-eps) || m.Suppressed(ls, e) {
					continue
				}
				// the bound runs from the instant the integration is healthy again: a
				// failed or timed-out delivery never discharges the obligation
				c := e
				for moved := true; moved; {
					moved = false
					for _, f := range m.P.Faults {
						if (f.Inst == -1 || f.Inst == m.Inst) && f.Receiver == k.Receiver && f.Integ == k.Integ && f.From <= c+B && f.To >= c-flushTimeout(r.GroupInterval)-c01Slack && f.To > c {
							c = f.To + time.Millisecond
							moved = true
						}
					}
				}
				deadline := c + B + flushTimeout(r.GroupInterval)
				if deadline > m.P.Horizon-time.Second {
					continue
				}
				if m.Disturbed(n1.T, deadline) {
					// A configuration reload rebuilds the dispatcher from the alerts the
					// provider holds (a resolved one included, until the provider's next GC)
					// and the notification log survives it: the resolution is still owed,
					// counted from the reload and the new group's group_wait. Anything else
					// (restart, crash) loses the alerts.
					last, only := m.OnlyReloads(n1.T, deadline)
					if !only || m.repAt(r, last) != m.repAt(r, n1.T) {
						continue
					}
					if last > e && m.AlertGCBetween(e, last) {
						continue // the resolved alert may have been collected before the reload
					}
					if last > c {
						c = last
					}
					deadline = c + r.GroupWait + B + flushTimeout(r.GroupInterval)
					if l2, only2 := m.OnlyReloads(n1.T, deadline); deadline > m.P.Horizon-time.Second || !only2 || l2 != last || m.FaultIn(k.Receiver, k.Integ, e-flushTimeout(r.GroupInterval)-c01Slack, deadline) {
						continue
					}
					m.H.Probe("resolution-owed-across-reload")
				}
				quietAt := func(t Dur) bool {
					if m.Firing(lk, t) || m.Suppressed(ls, t) {
						return false
					}
					if cal {
						if muted, _ := m.TimeMuted(r, t); muted {
							return false
						}
					}
					return true
				}
				if c > e && !m.Throughout(e+B, deadline, cal, quietAt) {
					continue
				}
				// every integration of the receiver must have accepted n1's flush too, or the
				// group keeps the alert anyway; nothing to add here.
				v.Ob("resolution-reported-at-next-flush")
				found := false
				for _, x := range s {
					if x.OK() && x.Done > e-eps && x.Done <= deadline && x.Resolved()[lk] {
						found = true
					}
				}
				if !found {
					sig := prop + "/resolution-not-reported"
					exp := 2 * m.repAt(r, n1.T)
					if m.retention() < exp {
						exp = m.retention()
					}
					if c+r.GroupInterval-n1.Done > exp {
						// the log entry of the last firing notification had expired (nothing was
						// sent for longer than min(retention, 2*repeat_interval), e.g. because the
						// alert was suppressed) before the alert resolved
						sig += ":after-log-entry-expired"
					}
					v.Fail(prop, sig, deadline,
						"alert %s was reported firing to %s/%d (group %s) at %v, resolved at %v and stayed resolved and unsuppressed, the integration was healthy from %v on, but no resolved notification followed by %v (group_interval %v)",
						lk, k.Receiver, k.Integ, k.GKey, n1.Done, e, c, deadline, r.GroupInterval)
				}
			}
		}
	}
}

// checkGrouping (C06), per notification and across the run.
func checkGrouping(prop string, m *Model, v *Verdict) {
	keyOf := map[string]string{} // receiver + matcher path + group labels -> group key
	pairOf := map[string]string{}
	for _, n := range m.H.Notifs {
		if n.Inst != m.Name {
			continue
		}
		v.Ob("notification-is-one-group-of-one-route")
		if n.PayloadReceiver != n.Receiver {
			v.Fail(prop, prop+"/receiver-mismatch", n.T, "request to receiver %s carries receiver %q in its payload", n.Receiver, n.PayloadReceiver)
		}
		// candidate routes of this very notification
		var cands []*MRoute
		first := true
		for _, a := range n.Alerts {
			var c []*MRoute
			for _, r := range m.Root.Match(a.Labels) {
				if r.Receiver == n.Receiver && sameLabels(r.GroupLabels(a.Labels), n.GroupLabels) {
					c = append(c, r)
				}
			}
			if first {
				cands, first = c, false
				continue
			}
			var keep []*MRoute
			for _, r := range cands {
				for _, x := range c {
					if x == r {
						keep = append(keep, r)
					}
				}
			}
			cands = keep
		}
		if len(n.Alerts) > 0 && len(cands) == 0 {
			v.Fail(prop, prop+"/alerts-not-of-one-group", n.T, "notification to %s/%d with group labels %s lists alerts that no single route with that receiver selects with those group label values: %s", n.Receiver, n.Integ, labelsKey(n.GroupLabels), notifBrief(n))
			continue
		}
		// completeness: every member that was eligible throughout the flush window is listed
		wh := m.webhook(n.Receiver, n.Integ)
		if wh != nil && wh.MaxAlerts == 0 && len(cands) > 0 {
			complete := false
			var missing string
			for _, r := range cands {
				win := flushTimeout(r.GroupInterval) + c01Slack
				cal := len(r.Mute) > 0 || len(r.Active) > 0
				okr := true
				for _, lk := range m.members(r, n.GroupLabels) {
					if n.Firing()[lk] {
						continue
					}
					if m.Throughout(n.T-win-c01Slack, n.T+eps, cal, func(t Dur) bool { return m.Eligible(lk, r, t) }) && !m.Disturbed(n.T-win-c01Slack-m.P.Opts.DispatchStartDelay, n.T) {
						okr = false
						missing = lk
					}
				}
				if okr {
					complete = true
				}
			}
			v.Ob("notification-lists-the-whole-group")
			if !complete {
				v.Fail(prop, prop+"/group-member-omitted", n.T, "notification to %s/%d for group %s at %v omits %s, which belongs to the group and was firing and unsuppressed during the whole flush window: %s", n.Receiver, n.Integ, n.GroupKey, n.T, missing, notifBrief(n))
			}
		}
		// the group key is a function of (matcher path, group labels) and vice versa
		if len(cands) == 1 {
			pair := n.Receiver + "|" + cands[0].matcherPath() + "|" + labelsKey(n.GroupLabels)
			pathPair := cands[0].matcherPath() + "|" + labelsKey(n.GroupLabels)
			v.Ob("group-key-is-a-function-of-path-and-labels")
			if k, ok := keyOf[pair]; ok && k != n.GroupKey {
				v.Fail(prop, prop+"/group-key-not-stable", n.T, "route path %s with group labels %s was notified under two group keys: %q and %q", cands[0].matcherPath(), labelsKey(n.GroupLabels), k, n.GroupKey)
			}
			keyOf[pair] = n.GroupKey
			if pp, ok := pairOf[n.GroupKey]; ok && pp != pathPair {
				v.Fail(prop, prop+"/group-key-collision", n.T, "group key %q names two different (matcher path, group labels) pairs: %s and %s", n.GroupKey, pp, pathPair)
			}
			pairOf[n.GroupKey] = pathPair
		}
	}
	checkGroupsAPI(prop, m, v)
	checkFreshGroupWait(prop, m, v)
}

// checkGroupsAPI: GET /alerts/groups shows exactly the model's partition of the
// alerts GET /alerts returns (for alerts that have been stable for a while).
func checkGroupsAPI(prop string, m *Model, v *Verdict) {
	p := m.P
	for _, rec := range m.H.API {
		if rec.Inst != m.Name || rec.Action < 0 || rec.Code != 200 || p.Actions[rec.Action].Kind != "get_groups" || p.Actions[rec.Action].Query != "" {
			continue
		}
		var groups []APIGroup
		if err := jsonUnmarshal(rec.Resp, &groups); err != nil {
			continue
		}
		if m.Disturbed(rec.T-c01Slack-p.Opts.DispatchStartDelay, rec.T) {
			continue
		}
		// duplicates: two entries with the same receiver and labels must come from distinct routes
		type gk struct{ rcv, labels string }
		count := map[gk]int{}
		listed := map[gk]map[string]int{}
		for _, g := range groups {
			k := gk{g.Receiver.Name, labelsKey(g.Labels)}
			count[k]++
			if listed[k] == nil {
				listed[k] = map[string]int{}
			}
			for _, a := range g.Alerts {
				listed[k][labelsKey(a.Labels)]++
			}
		}
		for _, lk := range sortedKeys(m.Labels) {
			ls := m.Labels[lk]
			stableFiring := m.Throughout(rec.T-c01Slack, rec.T+eps, false, func(t Dur) bool { return m.Firing(lk, t) })
			stableResolved := m.Throughout(rec.T-c01Slack, rec.T+eps, false, func(t Dur) bool { return !m.Firing(lk, t) })
			want := map[gk]int{}
			for _, r := range m.Root.Match(ls) {
				want[gk{r.Receiver, labelsKey(r.GroupLabels(ls))}]++
			}
			if stableFiring {
				v.Ob("groups-api-shows-the-partition")
				for k, w := range want {
					if listed[k][lk] != w {
						v.Fail(prop, prop+"/groups-api-partition-mismatch", rec.T, "GET /alerts/groups at %v lists firing alert %s %d times under receiver %s labels %s; routing selects %d route(s) with that receiver and those group labels", rec.T, lk, listed[k][lk], k.rcv, k.labels, w)
					}
				}
				for k, l := range listed {
					if l[lk] > 0 && want[k] == 0 {
						v.Fail(prop, prop+"/groups-api-alert-in-wrong-group", rec.T, "GET /alerts/groups at %v lists alert %s under receiver %s labels %s, where routing does not put it", rec.T, lk, k.rcv, k.labels)
					}
				}
			}
			if stableResolved {
				for k, l := range listed {
					if l[lk] > 0 {
						v.Fail(prop, prop+"/groups-api-lists-resolved-alert", rec.T, "GET /alerts/groups at %v lists alert %s (resolved for more than %v) under receiver %s", rec.T, lk, c01Slack, k.rcv)
					}
				}
			}
		}
	}
}

// checkFreshGroupWait: a brand-new group, or a group recreated after its
// all-resolved notification was delivered, waits group_wait before its first flush.
func checkFreshGroupWait(prop string, m *Model, v *Verdict) {
	seqs := m.seqs()
	for _, k := range sortedSeqKeys(seqs) {
		s := seqs[k]
		rc := m.receiver(k.Receiver)
		if rc == nil || len(s) == 0 {
			continue
		}
		rs := m.RoutesOf(s[0])
		if len(rs) != 1 {
			continue
		}
		var r *MRoute
		for x := range rs {
			r = x
		}
		if r.GroupWait < 2*time.Second {
			continue
		}
		mem := m.members(r, s[0].GroupLabels)
		// earliest accepted submission of any member
		firstSub := func(after Dur) (Dur, bool) {
			best, ok := Dur(0), false
			for _, lk := range mem {
				for _, sb := range m.Subs[lk] {
					if sb.T > after && (!ok || sb.T < best) { // any submission, even an already resolved one, creates the group
						best, ok = sb.T, true
					}
				}
			}
			return best, ok
		}
		// (a) first ever flush of this group in this run (no restart/reload before it)
		if p0, ok := firstSub(-1); ok && !m.Disturbed(0+time.Second, s[0].T) && k.Integ == 0 {
			v.Ob("new-group-waits-group_wait")
			if s[0].T < p0+r.GroupWait-time.Second {
				v.Fail(prop, prop+"/first-flush-before-group_wait", s[0].T, "group %s (%s) got its first notification at %v, only %v after its first alert arrived (group_wait %v)", k.GKey, k.Receiver, s[0].T, s[0].T-p0, r.GroupWait)
			}
		}
		// (b) recreation after a delivered all-resolved notification, single-integration receivers only
		if len(rc.Webhooks) != 1 {
			continue
		}
		for i, n := range s {
			if !n.OK() || len(n.Firing()) != 0 || i+1 >= len(s) {
				continue
			}
			p1, ok := firstSub(n.Done + c01Slack)
			if !ok || m.Disturbed(n.T, s[i+1].T) {
				continue
			}
			// no member may have been firing between the all-resolved flush and p1
			quiet := m.Throughout(n.T-c01Slack, p1-time.Millisecond, false, func(t Dur) bool {
				for _, lk := range mem {
					if m.Firing(lk, t) {
						return false
					}
				}
				return true
			})
			if !quiet {
				continue
			}
			v.Ob("recreated-group-waits-group_wait")
			m.H.Probe("group-recreated-after-all-resolved")
			if s[i+1].T < p1+r.GroupWait-time.Second {
				v.Fail(prop, prop+"/recreated-group-flushed-before-group_wait", s[i+1].T, "group %s (%s) was emptied by the all-resolved notification at %v; the next alert arrived at %v and was notified at %v, before group_wait %v had passed", k.GKey, k.Receiver, n.Done, p1, s[i+1].T, r.GroupWait)
			}
		}
	}
}

// ---------- C20 ----------

// backoffCap is an upper bound of the j-th retry interval of the documented
// exponential backoff (initial 500ms, factor 1.5, jitter 0.5, cap 60s).
func backoffCap(j int) Dur {
	iv := 500 * time.Millisecond
	for i := 1; i < j; i++ {
		iv = iv * 3 / 2
		if iv > time.Minute {
			iv = time.Minute
			break
		}
	}
	return iv*3/2 + time.Second
}

type flushChain struct {
	Attempts []*Notif
}

// flushes splits one (receiver, integ, group key) sequence into flushes: a
// chain of attempts with one payload whose gaps fit the backoff schedule.
func (m *Model) flushes(s []*Notif, timeout Dur) []flushChain {
	var out []flushChain
	for _, n := range s {
		if len(out) > 0 {
			c := &out[len(out)-1]
			last := c.Attempts[len(c.Attempts)-1]
			end := last.T + last.Latency
			if last.Done > 0 {
				end = last.Done
			}
			// no attempt of a flush starts after the flush deadline (first attempt + time-out)
			if n.BodyHash == last.BodyHash && !last.OK() && last.Outcome != "4xx" && n.T-end <= backoffCap(len(c.Attempts)) && n.T < c.Attempts[0].T+timeout && !m.Disturbed(last.T+1, n.T) {
				c.Attempts = append(c.Attempts, n)
				continue
			}
		}
		out = append(out, flushChain{Attempts: []*Notif{n}})
	}
	return out
}

func checkDelivery(prop string, m *Model, v *Verdict) {
	seqs := m.seqs()
	for _, k := range sortedSeqKeys(seqs) {
		s := seqs[k]
		if len(s) == 0 {
			continue
		}
		_, _, giMin, giMax, _, ok := m.routeOpts(s[0])
		if !ok {
			continue
		}
		if len(m.RoutesOf(s[0])) != 1 {
			m.H.Probe("ambiguous-group-key-skipped")
			continue // timers unknown
		}
		fl := m.flushes(s, flushTimeout(giMin))
		for fi, c := range fl {
			first := c.Attempts[0]
			deadlineLo := first.T + flushTimeout(giMin)
			for j, n := range c.Attempts {
				isLast := j == len(c.Attempts)-1
				switch n.Outcome {
				case "5xx", "reset", "hang", "late":
					// (A) recoverable: retried unless the flush deadline intervenes. A
					// hanging or too slow receiver counts from the instant the sender gave
					// up: with a per-attempt time-out (webhook `timeout`) that is early enough
					// for a retry, without one it is the flush deadline itself.
					end := n.Done
					if end == 0 {
						if n.Outcome == "hang" || n.Outcome == "late" {
							break
						}
						end = n.T
					}
					due := end + backoffCap(j+1)
					if due < deadlineLo && due < m.P.Horizon-time.Second && !m.Disturbed(first.T-time.Second, due) {
						v.Ob("recoverable-failure-is-retried")
						if isLast {
							v.Fail(prop, prop+"/recoverable-failure-not-retried", due, "attempt %d of a flush to %s/%d (group %s) failed with a recoverable error (%s) at %v; no retry followed by %v although the flush deadline (>= %v) had not passed", j+1, k.Receiver, k.Integ, k.GKey, n.Outcome, n.T, due, deadlineLo)
						}
					}
				case "4xx":
					// (B) unrecoverable: no further attempt before the next tick
					v.Ob("unrecoverable-failure-is-not-retried")
					nextTick := first.T + giMin
					if fi+1 < len(fl) {
						nx := fl[fi+1].Attempts[0]
						if nx.T < nextTick && !m.Disturbed(first.T-time.Second, nx.T) {
							v.Fail(prop, prop+"/unrecoverable-failure-retried", nx.T, "attempt to %s/%d (group %s) failed with an unrecoverable error (4xx) at %v, yet another attempt followed at %v, before the next group_interval tick (>= %v)", k.Receiver, k.Integ, k.GKey, n.T, nx.T, nextTick)
						}
					}
				}
			}
			// (C) a failed flush is attempted again at a following tick while there is something to say
			lastA := c.Attempts[len(c.Attempts)-1]
			if !lastA.OK() && lastA.Outcome != "late" {
				rs := m.RoutesOf(first)
				if len(rs) == 1 {
					var r *MRoute
					for x := range rs {
						r = x
					}
					by := first.T + r.GroupInterval + flushTimeout(r.GroupInterval) + c01Slack
					mem := m.members(r, first.GroupLabels)
					f0 := first.Firing()
					cal := len(r.Mute) > 0 || len(r.Active) > 0
					// what the failed flush tried to say for the first time: firing alerts the
					// latest delivered notification does not list
					unsaid := false
					prev := latestDelivered(m, r, k.Integ, first.GroupLabels, first.T)
					for lk := range f0 {
						if prev == nil || !prev.Firing()[lk] {
							unsaid = true
						}
					}
					// with max_alerts the payload lists a prefix only, while the log records
					// the whole batch: "not listed so far" does not mean "unsaid"
					if wh := m.webhook(k.Receiver, k.Integ); wh == nil || wh.MaxAlerts > 0 || first.Truncated > 0 || (prev != nil && prev.Truncated > 0) {
						unsaid = false
					}
					if by < m.P.Horizon-time.Second && unsaid && !m.Disturbed(first.T-time.Second, by) &&
						m.Throughout(first.T-c01Slack, by, cal, func(t Dur) bool {
							for _, lk := range mem {
								if m.Eligible(lk, r, t) != f0[lk] {
									return false
								}
							}
							return true
						}) {
						v.Ob("failed-flush-is-attempted-again-next-interval")
						found := false
						for _, x := range s {
							if x.T > lastA.T && x.T <= by {
								found = true
							}
						}
						if !found {
							v.Fail(prop, prop+"/failed-flush-not-attempted-again", by, "every attempt of the flush to %s/%d (group %s) starting at %v failed (%s); nothing changed, yet no new attempt followed by %v (group_interval %v)", k.Receiver, k.Integ, k.GKey, first.T, lastA.Outcome, by, r.GroupInterval)
						}
					}
				}
				// resolved alerts of a failed flush are still there in the next attempt
				if fi+1 < len(fl) {
					nx := fl[fi+1].Attempts[0]
					// "next attempt" = the flush of the very next tick (ticks are max(group_interval,
					// duration of the failed flush) apart): a later one may follow a flush at which
					// the log said "nothing new", which succeeds silently and lets the resolved
					// alerts go
					if nx.T-first.T <= flushTimeout(giMax)+c01Slack && !m.Disturbed(first.T-time.Second, nx.T) && nx.Truncated == 0 && first.Truncated == 0 {
						for lk := range first.Resolved() {
							if _, known := m.Labels[lk]; !known {
								continue
							}
							// (a flush at which the alert is suppressed sends nothing for it, succeeds,
							// and the resolved alert is deleted: suppression anywhere between the two
							// attempts takes the obligation away, not only at the second one)
							var r1 *MRoute
							if rs1 := m.RoutesOf(first); len(rs1) == 1 {
								for x := range rs1 {
									r1 = x
								}
							}
							cal1 := r1 != nil && (len(r1.Mute) > 0 || len(r1.Active) > 0)
							if m.Throughout(first.T-c01Slack, nx.T, cal1, func(t Dur) bool {
								if m.Firing(lk, t) || m.Suppressed(m.Labels[lk], t) {
									return false
								}
								if cal1 {
									if muted, _ := m.TimeMuted(r1, t); muted {
										return false
									}
								}
								return true
							}) {
								v.Ob("resolved-alert-kept-after-failed-flush")
								if !nx.Resolved()[lk] {
									sig := prop + "/resolved-alert-dropped-after-failed-flush"
									repMin, _, _, _, _, _ := m.routeOpts(first)
									exp := 2 * repMin
									if m.retention() < exp {
										exp = m.retention()
									}
									var prevD *Notif
									for _, x := range s {
										if x.OK() && x.Done <= nx.T && (prevD == nil || x.Done > prevD.Done) {
											prevD = x
										}
									}
									if prevD == nil || nx.T-prevD.Done > exp {
										// the integration failed for longer than the log entry of its last
										// success lives (min(retention, 2*repeat_interval))
										sig += ":after-log-entry-expired"
									}
									v.Fail(prop, sig, nx.T, "the flush to %s/%d (group %s) at %v listed %s as resolved and failed; the next attempt at %v no longer lists it", k.Receiver, k.Integ, k.GKey, first.T, lk, nx.T)
								}
							}
						}
					}
				}
			}
		}
	}
	checkPayloadLaws(prop, m, v)
}

func intersectMaps(ms []map[string]string) map[string]string {
	out := map[string]string{}
	if len(ms) == 0 {
		return out
	}
	for k, val := range ms[0] {
		out[k] = val
	}
	for _, x := range ms[1:] {
		for k, val := range out {
			if xv, ok := x[k]; !ok || xv != val {
				delete(out, k)
			}
		}
	}
	return out
}

func checkPayloadLaws(prop string, m *Model, v *Verdict) {
	for _, n := range m.H.Notifs {
		if n.Inst != m.Name {
			continue
		}
		wh := m.webhook(n.Receiver, n.Integ)
		if wh == nil {
			continue
		}
		v.Ob("payload-laws")
		anyFiring := len(n.Firing()) > 0
		if (n.Status == "firing") != anyFiring {
			v.Fail(prop, prop+"/payload-status-wrong", n.T, "payload status %q but listed alerts are %s", n.Status, notifBrief(n))
		}
		var ls, as []map[string]string
		for _, a := range n.Alerts {
			ls = append(ls, a.Labels)
			an := a.Annotations
			if an == nil {
				an = map[string]string{}
			}
			as = append(as, an)
		}
		if len(n.Alerts) > 0 {
			if c := intersectMaps(ls); !sameLabels(c, n.CommonLabels) {
				v.Fail(prop, prop+"/common-labels-not-intersection", n.T, "commonLabels %s, intersection of the listed alerts' labels is %s", labelsKey(n.CommonLabels), labelsKey(c))
			}
			if c := intersectMaps(as); !sameLabels(c, n.CommonAnnotations) {
				v.Fail(prop, prop+"/common-annotations-not-intersection", n.T, "commonAnnotations %s, intersection of the listed alerts' annotations is %s", labelsKey(n.CommonAnnotations), labelsKey(c))
			}
		}
		if !wh.SendResolved && len(n.Resolved()) > 0 {
			v.Fail(prop, prop+"/resolved-listed-although-send_resolved-off", n.T, "send_resolved is off but the payload lists resolved alerts: %s", notifBrief(n))
		}
		if wh.MaxAlerts > 0 {
			if len(n.Alerts) > wh.MaxAlerts {
				v.Fail(prop, prop+"/max_alerts-exceeded", n.T, "payload lists %d alerts, max_alerts is %d", len(n.Alerts), wh.MaxAlerts)
			}
			if n.Truncated > 0 && len(n.Alerts) != wh.MaxAlerts {
				v.Fail(prop, prop+"/truncated-count-wrong", n.T, "truncatedAlerts=%d but only %d of max_alerts=%d alerts listed", n.Truncated, len(n.Alerts), wh.MaxAlerts)
			}
		} else if n.Truncated != 0 {
			v.Fail(prop, prop+"/truncated-count-wrong", n.T, "truncatedAlerts=%d without max_alerts", n.Truncated)
		}
		// siblings of the same flush (same receiver, group key and instant) saw the same batch
		for _, o := range m.H.Notifs {
			if o == n || o.Inst != n.Inst || o.Receiver != n.Receiver || o.GroupKey != n.GroupKey || o.Integ == n.Integ || o.T != n.T {
				continue
			}
			ow := m.webhook(o.Receiver, o.Integ)
			if ow == nil || ow.MaxAlerts != 0 || ow.SendResolved != wh.SendResolved || wh.MaxAlerts == 0 {
				continue
			}
			// o lists the whole batch; n must list its first max_alerts and report the rest
			// only comparable when both are the first attempt of their flush
			if !firstOfFlush(m, n) || !firstOfFlush(m, o) {
				continue
			}
			v.Ob("truncation-count-matches-sibling")
			if len(n.Alerts)+n.Truncated != len(o.Alerts) {
				v.Fail(prop, prop+"/truncated-count-wrong", n.T, "integration %d lists %d alerts + truncatedAlerts=%d, its sibling %d lists the whole batch of %d", n.Integ, len(n.Alerts), n.Truncated, o.Integ, len(o.Alerts))
			}
		}
	}
}

func firstOfFlush(m *Model, n *Notif) bool {
	for _, x := range m.H.Notifs {
		if x != n && x.Inst == n.Inst && x.Receiver == n.Receiver && x.Integ == n.Integ && x.GroupKey == n.GroupKey && x.BodyHash == n.BodyHash && x.T < n.T && n.T-x.T < 2*time.Minute && !x.OK() {
			return false
		}
	}
	return true
}

// ---------- notification log dump ----------

// NflogEntry is one decoded notification-log record.
type NflogEntry struct {
	GroupKey  string
	Receiver  string
	Integ     int
	Timestamp time.Time
	ExpiresAt time.Time
	Firing    int
	Resolved  int
}

func decodeNflog(b []byte) ([]NflogEntry, error) {
	var out []NflogEntry
	br := bufio.NewReader(bytes.NewReader(b))
	for {
		var e nflogpb.MeshEntry
		err := protodelim.UnmarshalFrom(br, &e)
		if errors.Is(err, io.EOF) {
			return out, nil
		}
		if err != nil {
			return out, err
		}
		if e.Entry == nil || e.Entry.Receiver == nil {
			return out, fmt.Errorf("entry without receiver")
		}
		out = append(out, NflogEntry{GroupKey: string(e.Entry.GroupKey), Receiver: e.Entry.Receiver.GroupName, Integ: int(e.Entry.Receiver.Idx),
			Timestamp: e.Entry.Timestamp.AsTime(), ExpiresAt: e.ExpiresAt.AsTime(), Firing: len(e.Entry.FiringAlerts), Resolved: len(e.Entry.ResolvedAlerts)})
	}
}

func sortStrings(s []string) { sort.Strings(s) }
