package amsim

import (
	"encoding/json"
	"sort"
	"time"
)

func jsonUnmarshal(s string, v any) error { return json.Unmarshal([]byte(s), v) }

var singleReal = []string{"app.New wiring + reloader", "api/v2 handlers", "provider/mem", "dispatch", "inhibit", "silence", "nflog", "notify pipeline (all stages)", "timeinterval", "webhook notifier + net/http client", "config loader"}
var singleStub = []string{"clock (synctest)", "receiver endpoints (net.Pipe + scripted http.Server)", "snapshot disk (simfs)", "goroutine holds at verifhook yield sites"}

const singleRule = "seeded scenario of the single-instance family: random routing tree (depth<=2, continue flags, group_by lists/.../empty, timers), 1-2 webhook integrations per receiver, optional inhibit rules, silences (create/edit/expire), mute/active time intervals, 2-8 label sets with fire/heartbeat/resolve/time-out/flap/re-fire timelines, receiver fault windows (5xx/4xx/hang/reset/slow), valid and rejected reloads, scheduling holds at the dispatcher yield points, varying worker counts and maintenance/GC intervals; "

// dumpNflog records the decoded notification log of instance i as an event.
func (w *World) dumpNflog(i int) {
	in := w.Insts[i]
	if in.App == nil || in.Int.Nflog == nil {
		return
	}
	b, err := in.Int.Nflog.MarshalBinary()
	if err != nil {
		return
	}
	es, err := decodeNflog(b)
	if err != nil {
		w.H.AddEvent("nflog-undecodable", in.Name, err.Error())
		return
	}
	sort.Slice(es, func(i, j int) bool {
		if es[i].GroupKey != es[j].GroupKey {
			return es[i].GroupKey < es[j].GroupKey
		}
		if es[i].Receiver != es[j].Receiver {
			return es[i].Receiver < es[j].Receiver
		}
		return es[i].Integ < es[j].Integ
	})
	w.H.AddEvent("nflog-dump", in.Name, mustJSON(es))
}

// checkRecordAfterSuccess (C20): a log entry with firing alerts exists only if a
// 2xx for that (group, integration) precedes it.
func checkRecordAfterSuccess(prop string, m *Model, v *Verdict) {
	for _, e := range m.H.Events {
		if e.Kind != "nflog-dump" || e.Inst != m.Name {
			continue
		}
		var es []NflogEntry
		if jsonUnmarshal(e.Msg, &es) != nil {
			continue
		}
		for _, le := range es {
			if le.Firing == 0 {
				continue
			}
			v.Ob("log-entry-has-a-preceding-success")
			ts := le.Timestamp.Sub(m.P.Start)
			ok := false
			for _, n := range m.H.Notifs {
				if n.Inst == m.Name && n.OK() && n.Receiver == le.Receiver && n.Integ == le.Integ && n.GroupKey == le.GroupKey && n.Done <= ts+time.Millisecond {
					ok = true
				}
			}
			// an entry may also have been loaded from a snapshot written by an earlier incarnation
			if !ok && !m.crashedBetween(0, e.T) {
				v.Fail(prop, prop+"/logged-without-success", e.T, "the notification log holds an entry for group %s receiver %s/%d with %d firing alerts stamped %v, but no delivery to that integration for that group succeeded before that instant", le.GroupKey, le.Receiver, le.Integ, le.Firing, ts)
			}
		}
	}
}

func init() {
	finalHooks["C20"] = func(w *World) { w.dumpNflog(0) }
	RegisterAction("dump_nflog", func(w *World, idx int, a *Action) { w.dumpNflog(a.Inst) })

	Register(&Prop{
		ID: "C04", Level: "exploration",
		Gen: func(seed uint64, tier string) *Plan {
			k := DefaultKnobs()
			k.MaxSets = 4
			k.Children = 2
			k.HorizonMin, k.HorizonMax = 2*time.Hour, 8*time.Hour
			k.GIMin, k.GIMax = 15*time.Second, 5*time.Minute
			k.RepMin, k.RepMax = time.Minute, 3*time.Hour
			k.PFaults, k.MaxFaults = 0.35, 2
			k.PHolds = 0.1
			k.PRestart = 0.25
			k.PReload = 0.35
			k.MaintMin, k.MaintMax = time.Minute, 10*time.Minute
			rng := NewRng(seed ^ 0xc04)
			k.Retention = Pick(rng, []Dur{0, 0, 2 * time.Hour, 30 * time.Minute, 120 * time.Hour})
			if tier == "thorough" {
				k.HorizonMax = 30 * time.Hour
				k.RepMax = 12 * time.Hour
			}
			p := genSingle(seed, "C04", k)
			// a reload that only lowers (and later restores) repeat_interval
			if rng.Bool(0.3) {
				low := clonePlan(&Plan{Configs: []*Config{p.Configs[0]}}).Configs[0]
				f := Pick(rng, []Dur{2, 3, 5})
				var walk func(r *Route)
				walk = func(r *Route) {
					if r.RepeatInterval > 0 {
						r.RepeatInterval = r.RepeatInterval / f
					}
					for _, c := range r.Routes {
						walk(c)
					}
				}
				walk(low.Route)
				fixRepeat(low.Route)
				p.Configs = append(p.Configs, low)
				idx := len(p.Configs) - 1
				b := &planBuilder{p: p, used: map[Dur]bool{}}
				for _, a := range p.Actions {
					b.used[a.At] = true
				}
				at := rng.Dur(p.Horizon/6, p.Horizon/2)
				b.add(Action{At: at, Kind: "reload", Cfg: idx})
				if rng.Bool(0.4) {
					b.add(Action{At: at + rng.Dur(10*time.Minute, p.Horizon/3), Kind: "reload", Cfg: 0})
				}
				p.SortActions()
			}
			return p
		},
		Check: func(p *Plan, r *RunResult) *Verdict {
			v := &Verdict{}
			m := BuildModel(p, r.H, 0)
			checkJustified("C04", m, v)
			checkRepeatOnTime("C04", m, v)
			return v
		},
		Rule: singleRule + "C04 emphasis: horizons of 2-8 virtual hours (30 h thorough) covering several repeat_intervals (1 min - 3 h), retention on both sides of repeat_interval, short maintenance intervals (nflog GC and snapshots interleave), graceful restarts and reloads. Non-trivial: a notification was checked against its predecessor or a repeat deadline was evaluated; distinct by abstract trace.",
		Real: singleReal, Stub: singleStub,
		Assumptions: []string{"timeliness is asserted only when the group's eligible set stayed constant and equal to what was notified, the integration was healthy and the instance undisturbed for the whole repeat window", "a moment without a firing unsuppressed alert (by the reference model, widened by 1.5 s) is accepted as the start of a new cycle"},
	})

	Register(&Prop{
		ID: "C05", Level: "exploration",
		Gen: func(seed uint64, tier string) *Plan {
			k := DefaultKnobs()
			k.PResolve, k.PRefire, k.PFlap = 0.8, 0.7, 0.5
			k.PInhibit, k.PIntervals = 0.15, 0.1
			k.FaultModes = []string{"slow", "slow", "5xx", "hang", "reset"}
			k.PFaults, k.MaxFaults = 0.7, 4
			k.PReloadAfterResolve = 0.3
			k.PHolds = 0.35
			k.GWMax = 15 * time.Second
			k.GIMax = 90 * time.Second
			return genSingle(seed, "C05", k)
		},
		Check: func(p *Plan, r *RunResult) *Verdict {
			v := &Verdict{}
			m := BuildModel(p, r.H, 0)
			checkResolved("C05", m, v)
			// a group whose alerts all resolved before its first flush sends nothing; a
			// flapping alert is not lost (O1 over the re-fired span)
			checkEmptyFirst("C05", m, v)
			checkO1("C05", m, v, 0)
			return v
		},
		Rule: singleRule + "C05 emphasis: explicit resolves and time-outs, flaps (resolve and re-fire within seconds), slow/hanging/failing receivers so that re-fires land inside in-flight deliveries, both send_resolved values, hold at the yield point between notify success and the delete of resolved alerts. Non-trivial: a resolved listing, a resolution deadline or a re-fired span was evaluated; distinct by abstract trace.",
		Real: singleReal, Stub: singleStub,
		Assumptions: []string{"a resolution must be reported within group_interval + flush time-out + 6 s of the end time, and only if the alert stayed resolved and unsuppressed from its end on and the integration was healthy", "'resolved while firing' is flagged only if the alert fired throughout the whole window in which the flush can have started"},
	})

	Register(&Prop{
		ID: "C06", Level: "exploration",
		Gen: func(seed uint64, tier string) *Plan {
			k := DefaultKnobs()
			k.MinSets, k.MaxSets = 4, 9
			k.Children = 4
			k.PHolds = 0.6
			k.PFaults, k.MaxFaults = 0.3, 2
			k.PProbe = 1
			k.PRestart = 0.15
			k.Workers = []int{2, 3, 4, 8}
			k.GWMax = 20 * time.Second
			p := genSingle(seed, "C06", k)
			// adjacent GET /alerts + GET /alerts/groups probes
			b := &planBuilder{p: p, used: map[Dur]bool{}}
			for _, a := range p.Actions {
				b.used[a.At] = true
			}
			rng := NewRng(seed ^ 0xc06)
			for i := 0; i < 6; i++ {
				at := rng.Dur(20*time.Second, p.Horizon-time.Second)
				b.add(Action{At: at, Kind: "get_groups"})
			}
			p.SortActions()
			return p
		},
		Check: func(p *Plan, r *RunResult) *Verdict {
			v := &Verdict{}
			m := BuildModel(p, r.H, 0)
			checkGrouping("C06", m, v)
			return v
		},
		Rule: singleRule + "C06 emphasis: 4-9 label sets over deeper trees, 2-8 ingestion workers, holds at the load/create/retry steps of group creation, in the maintenance sweep and before the delete of resolved alerts, GET /alerts/groups probes, restarts. Non-trivial: a notification was checked for one-group-ness and completeness or a groups probe was compared with the model's partition; distinct by abstract trace.",
		Real: singleReal, Stub: singleStub,
		Assumptions: []string{"group keys are treated as opaque; a notification is bound to model routes by receiver, group labels and reference routing of its alerts", "completeness is asserted for members that were eligible during the whole window in which the flush can have started"},
	})

	Register(&Prop{
		ID: "C20", Level: "exploration",
		Gen: func(seed uint64, tier string) *Plan {
			k := DefaultKnobs()
			k.PFaults, k.MaxFaults = 1, 6
			k.FaultModes = []string{"5xx", "5xx", "4xx", "4xx", "hang", "reset", "slow"}
			k.MaxAlertsOpt = true
			k.PHolds = 0.1
			k.PWebhookTimeout = 0.35
			k.PInhibit, k.PIntervals = 0.15, 0.05
			k.MinSets = 3
			p := genSingle(seed, "C20", k)
			// annotations (shared and differing) on some alerts
			rng := NewRng(seed ^ 0xc20)
			for i := range p.Actions {
				for j := range p.Actions[i].Alerts {
					al := &p.Actions[i].Alerts[j]
					al.Annotations = map[string]string{"summary": "s"}
					if al.Labels["job"] == "j1" || rng.Bool(0.2) {
						al.Annotations["runbook"] = "rb-" + al.Labels["alertname"]
					}
				}
			}
			b := &planBuilder{p: p, used: map[Dur]bool{}}
			for _, a := range p.Actions {
				b.used[a.At] = true
			}
			for i := 0; i < 3; i++ {
				b.add(Action{At: rng.Dur(time.Minute, p.Horizon-time.Second), Kind: "dump_nflog"})
			}
			p.SortActions()
			return p
		},
		Check: func(p *Plan, r *RunResult) *Verdict {
			v := &Verdict{}
			m := BuildModel(p, r.H, 0)
			checkDelivery("C20", m, v)
			checkRecordAfterSuccess("C20", m, v)
			// sibling isolation: every integration still obeys the dedup rules and O1
			checkJustified("C20", m, v)
			checkO1("C20", m, v, 0)
			return v
		},
		Rule: singleRule + "C20 emphasis: every run has 1-6 receiver fault windows (5xx, 4xx, hang until the flush deadline, connection reset, slow 2xx), receivers with two integrations so that one fails while its sibling is healthy, max_alerts, shared and differing annotations, notification-log dumps. Non-trivial: a retry/no-retry/next-interval obligation, a payload law or a log entry was evaluated; distinct by abstract trace.",
		Real: singleReal, Stub: singleStub,
		Assumptions: []string{"attempts are grouped into flushes by identical payload and gaps within the documented backoff schedule (500 ms x 1.5^n, jitter 0.5, cap 60 s)", "the text-truncation clause is a pure string function and is not decided here"},
	})
}

// checkEmptyFirst: the first notification of a group for an integration lists a firing alert.
func checkEmptyFirst(prop string, m *Model, v *Verdict) {
	seqs := m.seqs()
	for _, k := range sortedSeqKeys(seqs) {
		s := seqs[k]
		if wh := m.webhook(k.Receiver, k.Integ); wh == nil || wh.MaxAlerts > 0 {
			continue
		}
		for i, n := range s {
			if len(n.Firing()) > 0 {
				continue
			}
			prevFiring := false
			for j := 0; j < i; j++ {
				if s[j].OK() && len(s[j].Firing()) > 0 {
					prevFiring = true
				}
			}
			v.Ob("all-resolved-group-sends-nothing")
			if !prevFiring && !m.crashedBetween(0, n.T) {
				v.Fail(prop, prop+"/notification-for-group-never-notified-firing", n.T, "group %s (%s/%d) got a notification listing no firing alert (%s) although no firing notification was ever delivered for it", k.GKey, k.Receiver, k.Integ, notifBrief(n))
			}
		}
	}
}
