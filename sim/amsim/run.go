package amsim

import (
	"fmt"
	"runtime/debug"
	"strings"
	"testing"
	"testing/synctest"
	"time"

	"github.com/prometheus/alertmanager/alert"
	"github.com/prometheus/common/model"

	"verif/sim/simfs"
	"verif/sim/simnet"
)

// BubbleEpoch is the instant every synctest bubble starts at.
var BubbleEpoch = time.Date(2000, 1, 1, 0, 0, 0, 0, time.UTC)

// Violation is one oracle failure.
type Violation struct {
	Prop string `json:"prop"`
	Sig  string `json:"sig"` // stable signature: kind + structural facts, no seeds, times or ids
	Msg  string `json:"msg"`
	T    Dur    `json:"t"`
}

// Verdict is what an oracle returns for one run.
type Verdict struct {
	Violations  []Violation    `json:"violations,omitempty"`
	Obligations map[string]int `json:"obligations,omitempty"`
}

func (v *Verdict) Ob(name string) {
	if v.Obligations == nil {
		v.Obligations = map[string]int{}
	}
	v.Obligations[name]++
}

func (v *Verdict) ObN(name string, n int) {
	if v.Obligations == nil {
		v.Obligations = map[string]int{}
	}
	v.Obligations[name] += n
}

func (v *Verdict) Fail(prop, sig string, t Dur, format string, a ...any) {
	v.Violations = append(v.Violations, Violation{Prop: prop, Sig: sig, Msg: fmt.Sprintf(format, a...), T: t})
}

func (v *Verdict) TotalObligations() int {
	n := 0
	for _, c := range v.Obligations {
		n += c
	}
	return n
}

// RunResult is the outcome of executing one plan.
type RunResult struct {
	H        *History
	Online   Verdict // violations/obligations found by in-run checks
	InfraErr string
	RealMs   float64
	NetStats simnet.Stats
	FSFired  map[string]int
}

// ActionHandler executes a property-specific action kind.
type ActionHandler func(w *World, idx int, a *Action)

var actionHandlers = map[string]ActionHandler{}

// RegisterAction installs a handler for an action kind.
func RegisterAction(kind string, h ActionHandler) { actionHandlers[kind] = h }

func alertYieldKey(a any, start time.Time) string {
	if al, ok := a.(*alert.Alert); ok {
		ls := map[string]string{}
		for k, v := range al.Labels {
			ls[string(k)] = string(v)
		}
		return fmt.Sprintf("%s@%d", labelsKey(ls), int64(al.UpdatedAt.Sub(start)))
	}
	return fmt.Sprintf("%v", a)
}

var _ model.Fingerprint

func sleepUntil(t time.Time) {
	if d := time.Until(t); d > 0 {
		time.Sleep(d)
	}
}

// RunPlan executes p inside a fresh synctest bubble and returns the history.
// during, when not nil, runs on the driver goroutine after the world is built
// and before the first action (used to install extra instrumentation).
func RunPlan(t *testing.T, p *Plan) (res *RunResult) {
	res = &RunResult{}
	real0 := time.Now()
	defer func() { res.RealMs = float64(time.Since(real0).Microseconds()) / 1000 }()
	func() {
		defer func() {
			if r := recover(); r != nil {
				s := fmt.Sprint(r)
				if strings.Contains(s, "deadlock: main bubble goroutine has exited") {
					// Goroutines parked for ever inside the finished bubble (idle
					// HTTP connections, library tickers); harmless.
					return
				}
				res.InfraErr = "panic: " + s + "\n" + string(debug.Stack())
			}
		}()
		seedRuntime(p.Seed)
		defer func() { runtimeVerifSeed = 0 }()
		synctest.Test(t, func(t *testing.T) {
			if p.Start.Before(BubbleEpoch) {
				res.InfraErr = "plan start before bubble epoch"
				return
			}
			sleepUntil(p.Start)
			w := NewWorld(p)
			w.DriverG = goid()
			w.Online = &res.Online
			res.H = w.H
			if f := setupHooks[p.Prop]; f != nil {
				f(w)
			}
			defer func() {
				if r := recover(); r != nil {
					res.InfraErr = fmt.Sprintf("driver panic: %v\n%s", r, debug.Stack())
				}
			}()
			if w.Net != nil && p.Net != nil {
				w.Net.SetConfig(w.netConfig())
			}
			// Instances whose StartAt is zero start before the first action, at
			// staggered, salted instants (no two independent actors share an instant).
			for i, ip := range p.Insts {
				if ip.StartAt == 0 {
					sleepUntil(p.Start.Add(Dur(i)*(41*time.Millisecond+5) + 1))
					if err := w.StartInst(i); err != nil {
						res.InfraErr = "start instance: " + err.Error()
						w.Close()
						return
					}
					synctest.Wait()
				}
			}
			for idx := range p.Actions {
				a := &p.Actions[idx]
				if at := p.Start.Add(a.At); time.Now().After(at) {
					// the driver was busy past this action's time (a restart or reload
					// that takes a while): late actions keep their order and stay at
					// distinct instants, as requests of a client that was kept waiting
					time.Sleep(time.Millisecond)
				} else {
					sleepUntil(at)
				}
				synctest.Wait()
				w.CurAction = idx
				w.exec(idx, a)
				synctest.Wait()
				if w.PostAction != nil {
					w.PostAction(idx)
				}
			}
			sleepUntil(p.Start.Add(p.Horizon))
			synctest.Wait()
			if f := finalHooks[p.Prop]; f != nil {
				f(w)
				synctest.Wait()
			}
			if w.Net != nil {
				res.NetStats = w.Net.Stats()
			}
			res.FSFired = simfs.Fired()
			w.Close()
			synctest.Wait()
		})
	}()
	return res
}

var finalHooks = map[string]func(w *World){}
var setupHooks = map[string]func(w *World){}

func (w *World) netConfig() simnet.Config {
	np := w.Plan.Net
	c := simnet.Config{DropPct: np.DropPct, DupPct: np.DupPct, MinDelay: np.MinDelay, Jitter: np.Jitter, FaultsUntil: np.FaultsUntil}
	for _, pt := range np.Parts {
		a := map[string]bool{}
		for _, i := range pt.A {
			a[w.Insts[i].Name] = true
		}
		var bm map[string]bool
		if len(pt.B) > 0 {
			bm = map[string]bool{}
			for _, i := range pt.B {
				bm[w.Insts[i].Name] = true
			}
		}
		c.Parts = append(c.Parts, simnet.Partition{From: pt.From, To: pt.To, A: a, B: bm, OneWay: pt.OneWay})
	}
	return c
}

func (w *World) exec(idx int, a *Action) {
	if h, ok := actionHandlers[a.Kind]; ok {
		h(w, idx, a)
		return
	}
	switch a.Kind {
	case "post":
		w.PostAlerts(a.Inst, idx, a.Alerts)
	case "silence":
		w.PostSilence(a.Inst, idx, a.Sil)
	case "expire":
		w.ExpireSilence(a.Inst, idx, a.SilKey)
	case "get_alerts":
		w.GetAlerts(a.Inst, idx, a.Query)
	case "get_groups":
		w.GetGroups(a.Inst, idx, a.Query)
	case "get_silences":
		w.GetSilences(a.Inst, idx)
	case "reload":
		w.Reload(a.Inst, a.Cfg)
	case "start":
		if w.Insts[a.Inst].App == nil {
			if err := w.StartInst(a.Inst); err != nil {
				w.Online.Fail(w.Plan.Prop, "start-failed", w.H.now(), "instance %s failed to start: %v", w.Insts[a.Inst].Name, err)
			}
		}
	case "stop":
		w.StopInst(a.Inst, "planned")
	case "restart":
		w.StopInst(a.Inst, "restart")
		synctest.Wait()
		time.Sleep(a.D + 1)
		if err := w.StartInst(a.Inst); err != nil {
			w.Online.Fail(w.Plan.Prop, "start-failed", w.H.now(), "instance %s failed to restart: %v", w.Insts[a.Inst].Name, err)
		}
		w.H.Fire("restart")
	case "crash":
		var pl func(string) int
		if a.N > 0 {
			n := a.N
			pl = func(path string) int { return int(Hash64(w.Plan.Seed, path, fmt.Sprint(n)) % 3) }
		}
		w.CrashInst(a.Inst, pl)
	case "noop":
	default:
		panic("unknown action kind " + a.Kind)
	}
}
