package amsim

import (
	"bytes"
	"fmt"
	"net/http"
	"net/http/httptest"
	"strings"
	"sync"
	"testing/synctest"
	"time"

	dto "github.com/prometheus/client_model/go"
)

// C18 — configured limits hold and never hurt what was already admitted.

// metricValue sums a counter/gauge family of instance i.
func (w *World) metricValue(i int, name string) float64 {
	in := w.Insts[i]
	if in.Reg == nil {
		return -1
	}
	mfs, err := in.Reg.Gather()
	if err != nil {
		return -1
	}
	sum := 0.0
	for _, mf := range mfs {
		if mf.GetName() != name {
			continue
		}
		for _, m := range mf.Metric {
			switch mf.GetType() {
			case dto.MetricType_COUNTER:
				sum += m.GetCounter().GetValue()
			case dto.MetricType_GAUGE:
				sum += m.GetGauge().GetValue()
			}
		}
	}
	return sum
}

type blockingRW struct {
	hdr     http.Header
	code    int
	buf     bytes.Buffer
	gate    chan struct{}
	reached chan struct{}
	once    sync.Once
}

func (b *blockingRW) Header() http.Header { return b.hdr }
func (b *blockingRW) WriteHeader(c int) {
	if b.code == 0 {
		b.code = c
	}
}
func (b *blockingRW) Write(p []byte) (int, error) {
	b.once.Do(func() { close(b.reached) })
	<-b.gate
	if b.code == 0 {
		b.code = 200
	}
	return b.buf.Write(p)
}

func init() {
	RegisterAction("metric", func(w *World, idx int, a *Action) {
		w.H.AddEvent("metric", w.Insts[a.Inst].Name, fmt.Sprintf("%s=%v", a.Str, w.metricValue(a.Inst, a.Str)))
	})
	// conc_probe holds N GETs in flight (their response writers block), then tries
	// one more GET and one POST, then releases everything.
	RegisterAction("conc_probe", func(w *World, idx int, a *Action) {
		in := w.Insts[a.Inst]
		if in.H == nil {
			return
		}
		gate := make(chan struct{})
		var held []*blockingRW
		before := w.metricValue(a.Inst, "alertmanager_http_concurrency_limit_exceeded_total")
		for k := 0; k < a.N; k++ {
			rw := &blockingRW{hdr: http.Header{}, gate: gate, reached: make(chan struct{})}
			held = append(held, rw)
			// the limit is one for the whole server: the parked requests alternate
			// between the API tree and the web tree (health endpoint)
			path := "/api/v2/alerts"
			if k%2 == 1 {
				path = "/-/healthy"
			}
			go func() {
				req := httptest.NewRequest("GET", path, nil)
				in.H.ServeHTTP(rw, req)
				rw.once.Do(func() { close(rw.reached) })
			}()
		}
		synctest.Wait()
		inflight := 0
		for _, rw := range held {
			select {
			case <-rw.reached:
				inflight++
			default:
			}
		}
		c1, _ := w.Do(a.Inst, idx, "GET", "/api/v2/alerts", "")
		c2, _ := w.PostAlerts(a.Inst, idx, []PAlert{{Labels: map[string]string{"alertname": "probe"}}})
		c3, _ := w.Do(a.Inst, idx, "GET", "/api/v2/status", "")
		c5, _ := w.Do(a.Inst, idx, "GET", "/-/healthy", "")
		after := w.metricValue(a.Inst, "alertmanager_http_concurrency_limit_exceeded_total")
		close(gate)
		synctest.Wait()
		c4, _ := w.Do(a.Inst, idx, "GET", "/api/v2/alerts", "")
		heldOK := 0
		for _, rw := range held {
			if rw.code == 200 {
				heldOK++
			}
		}
		w.H.AddEvent("conc-probe", in.Name, fmt.Sprintf("held=%d inflight=%d extra_get=%d post=%d extra_get2=%d extra_get3=%d after_release_get=%d held_ok=%d counter_delta=%v", a.N, inflight, c1, c2, c3, c5, c4, heldOK, after-before))
	})
}

func c18Gen(seed uint64, tier string) *Plan {
	rng := NewRng(seed)
	start := BubbleEpoch.Add(72*time.Hour + Dur(rng.Intn(86400*300))*time.Second)
	p := &Plan{Prop: "C18", Family: "single", Seed: seed, Start: start}
	limit := rng.Range(1, 4)
	conc := rng.Range(1, 4)
	maxSil := rng.Range(2, 5)
	maxSize := rng.Range(200, 600)
	cfg := &Config{ResolveTimeout: 5 * time.Minute,
		Route:     &Route{Receiver: "r0", GroupBy: []string{"alertname"}, GroupBySet: true, GroupWait: 30 * time.Second, GroupWaitSet: true, GroupInterval: 5 * time.Minute, RepeatInterval: 4 * time.Hour},
		Receivers: []Receiver{{Name: "r0", Webhooks: []Webhook{{SendResolved: true}}}}}
	p.Configs = []*Config{cfg}
	p.Insts = []InstPlan{{Name: "a"}}
	p.Opts = InstOpts{PerAlertNameLimit: limit, GetConcurrency: conc, MaxSilences: maxSil, MaxSilenceSize: maxSize,
		AlertGCInterval: rng.Dur(10*time.Second, 3*time.Minute) + 29, Retention: rng.Dur(2*time.Minute, 20*time.Minute),
		MaintenanceInterval: rng.Dur(30*time.Second, 5*time.Minute) + 13, DispatchMaintenance: 30*time.Second + 7}
	b := &planBuilder{p: p, used: map[Dur]bool{}}
	// (a) per-name limit
	var insts []map[string]string
	for i := 0; i < limit+rng.Range(1, 3); i++ {
		insts = append(insts, map[string]string{"alertname": "L", "instance": fmt.Sprintf("i%d", i)})
	}
	insts = append(insts, map[string]string{"alertname": "M", "instance": "i0"}, map[string]string{"alertname": "M", "instance": "i1"})
	n := rng.Range(8, 40)
	if tier == "thorough" {
		n = rng.Range(20, 100)
	}
	t := rng.Dur(time.Second, 20*time.Second)
	ends := []Dur{20 * time.Second, time.Minute, 3 * time.Minute, 7 * time.Minute, 12 * time.Minute, 25 * time.Minute}
	for i := 0; i < n; i++ {
		ls := Pick(rng, insts)
		a := PAlert{Labels: ls}
		if rng.Bool(0.85) {
			e := Pick(rng, ends) + rng.Dur(0, 20*time.Second)
			a.EndOff = &e
		}
		if rng.Bool(0.08) {
			e := -rng.Dur(0, 10*time.Second)
			a.EndOff = &e
		}
		b.add(Action{At: t - time.Millisecond, Kind: "get_alerts", Str: "before-post"})
		b.add(Action{At: t - time.Millisecond, Kind: "metric", Str: "alertmanager_alerts_limited_total"})
		at := b.add(Action{At: t, Kind: "post", Alerts: []PAlert{a}})
		b.add(Action{At: at + time.Millisecond, Kind: "get_alerts", Str: "after-post"})
		b.add(Action{At: at + time.Millisecond, Kind: "metric", Str: "alertmanager_alerts_limited_total"})
		t = at + Pick(rng, []Dur{10 * time.Millisecond, 5 * time.Second, 40 * time.Second, 2 * time.Minute, 6 * time.Minute}) + rng.Dur(0, 30*time.Second)
	}
	horizon := t + time.Minute
	// (b) silence limits
	ns := rng.Range(3, 10)
	for i := 0; i < ns; i++ {
		key := fmt.Sprintf("s%d", i)
		s := &PSilence{Key: key, Matchers: []M{{"alertname", "=", fmt.Sprintf("S%d", i)}}, EndOff: rng.Dur(30*time.Second, 10*time.Minute),
			Comment: strings.Repeat("x", rng.Range(1, maxSize+100))}
		if rng.Bool(0.3) && i > 0 {
			s.EditOf = fmt.Sprintf("s%d", rng.Intn(i))
			s.Key = s.EditOf
			if rng.Bool(0.5) {
				s.Matchers = []M{{"alertname", "=", "S" + s.EditOf[1:]}}
			}
		}
		at := rng.Dur(time.Second, horizon-time.Second)
		b.add(Action{At: at - time.Millisecond, Kind: "get_silences", Str: "before-sil"})
		at2 := b.add(Action{At: at, Kind: "silence", Sil: s})
		b.add(Action{At: at2 + time.Millisecond, Kind: "get_silences", Str: "after-sil"})
	}
	// (c) GET concurrency
	for i := 0; i < rng.Range(1, 2); i++ {
		b.add(Action{At: rng.Dur(time.Second, horizon-time.Second), Kind: "conc_probe", N: conc})
	}
	p.Horizon = horizon
	p.SortActions()
	p.Params = map[string]any{"limit": limit, "conc": conc, "max_silences": maxSil, "max_silence_size": maxSize}
	if ra := rng.Fork("autoholds"); ra.Bool(0.3) {
		p.Holds = append(p.Holds, AutoHolds(ra, []string{"mem.Alerts.gcAlerts", "store.Alerts.gcAlerts", "store.Alerts.gcLimitBuckets"}, ra.Range(1, 2), 16, 50*time.Millisecond, 30*time.Second)...)
	}
	return p
}

func c18Check(p *Plan, r *RunResult) *Verdict {
	v := &Verdict{}
	limit := p.Opts.PerAlertNameLimit
	// --- (a) per-name limit ---
	var before []APIAlert
	var beforeOK bool
	var beforeT Dur
	var lastPost *APIRec
	metricAt := map[Dur]float64{}
	for _, e := range r.H.Events {
		if e.Kind == "metric" && strings.HasPrefix(e.Msg, "alertmanager_alerts_limited_total=") {
			var x float64
			fmt.Sscanf(strings.TrimPrefix(e.Msg, "alertmanager_alerts_limited_total="), "%g", &x)
			metricAt[e.T] = x
		}
	}
	for _, rec := range r.H.API {
		if rec.Action < 0 {
			continue
		}
		a := &p.Actions[rec.Action]
		now := p.Start.Add(rec.T)
		switch {
		case a.Kind == "get_alerts" && rec.Code == 200:
			var got []APIAlert
			if jsonUnmarshal(rec.Resp, &got) != nil {
				continue
			}
			count := map[string]int{}
			for _, g := range got {
				if g.EndsAt.After(now) {
					count[g.Labels["alertname"]]++
				}
			}
			v.Ob("per-name-count-within-limit")
			for name, c := range count {
				if limit > 0 && c > limit && name != "probe" {
					v.Fail("C18", "C18/per-name-limit-exceeded", rec.T, "%d unexpired alerts named %s are admitted under a per-name limit of %d", c, name, limit)
				}
			}
			if a.Str == "before-post" {
				before, beforeOK, beforeT = got, true, rec.T
			}
			if a.Str == "after-post" && lastPost != nil && beforeOK && rec.T-lastPost.T <= 2*time.Millisecond && lastPost.T-beforeT <= 2*time.Millisecond && lastPost.T > beforeT {
				pa := p.Actions[lastPost.Action].Alerts[0]
				postNow := p.Start.Add(lastPost.T)
				lk := labelsKey(cleanLabels(pa.Labels))
				name := pa.Labels["alertname"]
				firing := pa.EndOff == nil || *pa.EndOff > 0
				wasIn, cnt := false, 0
				boundary := false
				for _, g := range before {
					if d := g.EndsAt.Sub(postNow); g.Labels["alertname"] == name && d > -2*time.Millisecond && d < 2*time.Millisecond {
						// an admitted alert of that name ends at the very instant of this
						// submission: whether it still occupies its slot is a matter of < vs <=
						boundary = true
					}
					if g.EndsAt.After(postNow) {
						if g.Labels["alertname"] == name {
							cnt++
						}
						if labelsKey(g.Labels) == lk {
							wasIn = true
						}
					}
				}
				var isIn *APIAlert
				for i := range got {
					if labelsKey(got[i].Labels) == lk {
						isIn = &got[i]
					}
				}
				refused := false
				switch {
				case boundary:
					// not judged
				case wasIn:
					v.Ob("re-send-of-admitted-alert-accepted")
					if firing && (isIn == nil || !isIn.UpdatedAt.Equal(postNow)) {
						v.Fail("C18", "C18/re-send-of-admitted-alert-refused", rec.T, "alert %s was admitted and unexpired, its re-send at %v was not applied", lk, lastPost.T)
						refused = true
					}
				case firing && cnt < limit:
					v.Ob("admitted-while-room")
					if isIn == nil {
						v.Fail("C18", "C18/refused-although-room", rec.T, "alert %s was refused although only %d unexpired alerts named %s were admitted (limit %d)", lk, cnt, name, limit)
						refused = true
					}
				case firing:
					v.Ob("refused-when-full")
					if isIn != nil {
						v.Fail("C18", "C18/admitted-beyond-limit", rec.T, "alert %s was admitted although %d unexpired alerts named %s already were (limit %d)", lk, cnt, name, limit)
					} else {
						refused = true
					}
				}
				// every refusal is counted
				mb, okb := metricAt[lastPost.T-time.Millisecond]
				ma, oka := metricAt[rec.T]
				if okb && oka && firing && !boundary {
					v.Ob("refusal-is-counted")
					want := 0.0
					if refused {
						want = 1
					}
					if ma-mb != want {
						v.Fail("C18", "C18/refusal-counter-wrong", rec.T, "alertmanager_alerts_limited_total moved by %v across the POST of %s; refused=%v", ma-mb, lk, refused)
					}
				}
			}
		case a.Kind == "post":
			lastPost = rec
			if len(a.Alerts) != 1 {
				lastPost = nil
			}
		}
	}
	// --- (b) silence limits ---
	maxSil, maxSize := p.Opts.MaxSilences, p.Opts.MaxSilenceSize
	var silBeforeRaw []APISilence
	var silBeforeT Dur = -1
	var lastSil *APIRec
	for _, rec := range r.H.API {
		if rec.Action < 0 {
			continue
		}
		a := &p.Actions[rec.Action]
		switch a.Kind {
		case "get_silences":
			if rec.Code != 200 {
				continue
			}
			var sils []APISilence
			if jsonUnmarshal(rec.Resp, &sils) != nil {
				continue
			}
			v.Ob("silence-count-and-size-within-limits")
			if maxSil > 0 && len(sils) > maxSil {
				v.Fail("C18", "C18/silence-count-limit-exceeded", rec.T, "%d silences stored, limit %d", len(sils), maxSil)
			}
			for _, s := range sils {
				sz := len(s.Comment) + len(s.CreatedBy) + len(s.ID)
				for _, m := range s.Matchers {
					sz += len(m.Name) + len(m.Value)
				}
				if maxSize > 0 && sz > maxSize {
					v.Fail("C18", "C18/silence-size-limit-exceeded", rec.T, "silence %s carries at least %d bytes of strings, size limit %d", s.ID, sz, maxSize)
				}
			}
			if a.Str == "before-sil" {
				silBeforeRaw, silBeforeT = sils, rec.T
			}
			if a.Str == "after-sil" && lastSil != nil && rec.T-lastSil.T <= 2*time.Millisecond && silBeforeT >= 0 && lastSil.T > silBeforeT && lastSil.T-silBeforeT <= 2*time.Millisecond {
				if lastSil.Code != 200 {
					v.Ob("rejected-silence-call-changes-nothing")
					gcBy := p.Start.Add(rec.T)
					ret := p.Opts.Retention
					if ret == 0 {
						ret = 120 * time.Hour
					}
					if got := canonSilences(sils, gcBy, ret); got != canonSilences(silBeforeRaw, gcBy, ret) {
						v.Fail("C18", "C18/rejected-silence-call-changed-state", rec.T, "POST /silences was rejected with %d (%s) but the stored silences changed", lastSil.Code, strings.TrimSpace(lastSil.Resp))
					}
				}
			}
		case "silence":
			lastSil = rec
		}
	}
	// --- (c) GET concurrency ---
	for _, e := range r.H.Events {
		if e.Kind != "conc-probe" {
			continue
		}
		var held, inflight, c1, c2, c3, c4, c5, heldOK int
		var delta float64
		fmt.Sscanf(e.Msg, "held=%d inflight=%d extra_get=%d post=%d extra_get2=%d extra_get3=%d after_release_get=%d held_ok=%d counter_delta=%g", &held, &inflight, &c1, &c2, &c3, &c5, &c4, &heldOK, &delta)
		if inflight != held {
			continue // the probe could not park its requests (e.g. instance down)
		}
		v.Ob("get-concurrency-limit")
		if c1 != 503 || c3 != 503 || c5 != 503 {
			v.Fail("C18", "C18/get-beyond-concurrency-not-refused", e.T, "with %d GETs in flight (limit %d; parked alternately on /api/v2/alerts and /-/healthy) further GETs on /api/v2/alerts, /api/v2/status and /-/healthy were answered %d, %d and %d, want 503", inflight, held, c1, c3, c5)
		}
		if c2 != 200 {
			v.Fail("C18", "C18/post-affected-by-get-limit", e.T, "with %d GETs in flight a POST was answered %d", inflight, c2)
		}
		if c4 != 200 || heldOK != held {
			v.Fail("C18", "C18/get-not-served-after-release", e.T, "after the held GETs were released: held ok %d/%d, new GET %d", heldOK, held, c4)
		}
		if delta != 3 {
			v.Fail("C18", "C18/concurrency-refusal-not-counted", e.T, "three GETs were refused with 503 but alertmanager_http_concurrency_limit_exceeded_total moved by %v", delta)
		}
	}
	return v
}

// canonSilences renders the stored silences, leaving out those that garbage
// collection is entitled to remove at or before instant gcBy (end + retention passed).
func canonSilences(sils []APISilence, gcBy time.Time, retention Dur) string {
	var parts []string
	for _, s := range sils {
		if !s.EndsAt.Add(retention).After(gcBy) {
			continue
		}
		parts = append(parts, fmt.Sprintf("%s|%s|%s|%s|%s|%d|%s", s.ID, s.StartsAt.UTC().Format(time.RFC3339Nano), s.EndsAt.UTC().Format(time.RFC3339Nano), s.UpdatedAt.UTC().Format(time.RFC3339Nano), s.CreatedBy, len(s.Comment), mustJSON(s.Matchers)))
	}
	sortStrings(parts)
	return strings.Join(parts, "\n")
}

func init() {
	Register(&Prop{
		ID: "C18", Level: "exploration", Gen: c18Gen, Check: c18Check,
		Rule:        "seeded run with per-alert-name limit 1-4, GET concurrency 1-4, silence count limit 2-5 and size limit 200-600 bytes: 8-40 (thorough 20-100) admissions/heartbeats of limit+1..limit+3 instances of one alert name with unordered explicit end times (20 s-25 min), already-resolved submissions, provider GC every 10 s-3 min, a GET before and after each POST plus the limited-alerts counter; 3-10 silence creates/edits with comments around the size limit; 1-2 concurrency probes that park `limit` GETs on blocking response writers, alternately on the API tree and on the web tree (the limit is one for the whole server). Non-trivial: an admission, refusal, silence-limit or concurrency obligation was evaluated; distinct by abstract trace.",
		Real:        []string{"app.New wiring", "api (limitHandler) and api/v2 handlers", "provider/mem", "store + limit.Bucket", "silence.Set / size and count checks", "metrics registry"},
		Stub:        []string{"clock (synctest)", "client (in-memory HTTP; blocking response writers for the concurrency probe)"},
		Assumptions: []string{"the encoded size of a stored silence is bounded from below by the sum of its string fields; the check flags only silences whose strings alone exceed the limit"},
	})
}
