package amsim

import (
	"encoding/json"
	"fmt"
	"regexp"
	"sort"
	"strings"
	"time"
)

// ---------- matchers (written from the documentation: a missing label reads as
// the empty string, = / != compare whole strings, =~ / !~ test a fully anchored
// regular expression) ----------

var reCache = map[string]*regexp.Regexp{}

func anchored(v string) *regexp.Regexp {
	if re, ok := reCache[v]; ok {
		return re
	}
	re, err := regexp.Compile("^(?:" + v + ")$")
	if err != nil {
		re = nil
	}
	reCache[v] = re
	return re
}

func (m M) Matches(ls map[string]string) bool {
	v := ls[m.Name]
	switch m.Op {
	case "=":
		return v == m.Value
	case "!=":
		return v != m.Value
	case "=~":
		re := anchored(m.Value)
		return re != nil && re.MatchString(v)
	case "!~":
		re := anchored(m.Value)
		return re != nil && !re.MatchString(v)
	}
	return false
}

func matchAll(ms []M, ls map[string]string) bool {
	for _, m := range ms {
		if !m.Matches(ls) {
			return false
		}
	}
	return true
}

// ---------- routing (depth-first, first match unless continue, inheritance) ----------

// MRoute is a routing node with every option resolved.
type MRoute struct {
	Receiver       string
	Matchers       []M
	GroupBy        []string
	GroupByAll     bool
	GroupWait      Dur
	GroupInterval  Dur
	RepeatInterval Dur
	Continue       bool
	Mute, Active   []string
	Children       []*MRoute
	Parent         *MRoute
	Path           string // position path, e.g. "0/2/1"
}

func buildRoutes(r *Route, parent *MRoute, path string) *MRoute {
	m := &MRoute{Parent: parent, Path: path, Matchers: r.Matchers, Continue: r.Continue, Mute: r.Mute, Active: r.Active}
	if parent != nil {
		m.Receiver, m.GroupBy, m.GroupByAll = parent.Receiver, parent.GroupBy, parent.GroupByAll
		m.GroupWait, m.GroupInterval, m.RepeatInterval = parent.GroupWait, parent.GroupInterval, parent.RepeatInterval
	} else {
		// documented defaults of the root route
		m.GroupWait, m.GroupInterval, m.RepeatInterval = 30*time.Second, 5*time.Minute, 4*time.Hour
	}
	if r.Receiver != "" {
		m.Receiver = r.Receiver
	}
	if r.GroupBySet {
		m.GroupBy, m.GroupByAll = nil, false
		for _, g := range r.GroupBy {
			if g == "..." {
				m.GroupByAll = true
			} else {
				m.GroupBy = append(m.GroupBy, g)
			}
		}
	}
	if r.GroupWaitSet {
		m.GroupWait = r.GroupWait
	}
	if r.GroupInterval > 0 {
		m.GroupInterval = r.GroupInterval
	}
	if r.RepeatInterval > 0 {
		m.RepeatInterval = r.RepeatInterval
	}
	for i, c := range r.Routes {
		m.Children = append(m.Children, buildRoutes(c, m, path+"/"+itoa(i)))
	}
	return m
}

func itoa(i int) string {
	if i == 0 {
		return "0"
	}
	var b []byte
	for i > 0 {
		b = append([]byte{byte('0' + i%10)}, b...)
		i /= 10
	}
	return string(b)
}

// Match returns the routes selected for a label set.
func (r *MRoute) Match(ls map[string]string) []*MRoute {
	if !matchAll(r.Matchers, ls) {
		return nil
	}
	var all []*MRoute
	for _, c := range r.Children {
		ms := c.Match(ls)
		all = append(all, ms...)
		if len(ms) > 0 && !c.Continue {
			break
		}
	}
	if len(all) == 0 {
		all = []*MRoute{r}
	}
	return all
}

func (r *MRoute) Walk(f func(*MRoute)) {
	f(r)
	for _, c := range r.Children {
		c.Walk(f)
	}
}

// GroupLabels restricts ls to the route's group_by labels.
func (r *MRoute) GroupLabels(ls map[string]string) map[string]string {
	out := map[string]string{}
	if r.GroupByAll {
		for k, v := range ls {
			out[k] = v
		}
		return out
	}
	for _, g := range r.GroupBy {
		if v, ok := ls[g]; ok {
			out[g] = v
		}
	}
	return out
}

// matcherPath is the list of matcher sets from the root to r (order-free within a set).
func (r *MRoute) matcherPath() string {
	var parts []string
	for x := r; x != nil; x = x.Parent {
		var ms []string
		for _, m := range x.Matchers {
			ms = append(ms, m.String())
		}
		sort.Strings(ms)
		parts = append([]string{"{" + strings.Join(ms, ",") + "}"}, parts...)
	}
	return strings.Join(parts, "/")
}

// ---------- piecewise predicates over virtual time ----------

// Span is a closed interval of offsets from plan start.
type Span struct{ From, To Dur }

// ---------- the world as the contract describes it ----------

type subm struct {
	T        Dur // accepted at
	Start    Dur
	End      Dur // end time in force after this submission
	Explicit bool
}

type mSilence struct {
	ID       string
	Matchers []M
	Start    Dur
	End      Dur
	// history of (from, start, end) versions: the fields in force from instant From on
	Vers []silVer
}

type silVer struct {
	From, Start, End Dur
}

// Model is the reference view of one instance's run.
type Model struct {
	P      *Plan
	H      *History
	Inst   int
	Name   string
	Cfg    *Config
	Root   *MRoute
	Subs   map[string][]subm            // label key -> accepted submissions in order
	Labels map[string]map[string]string // label key -> labels
	Sils   map[string]*mSilence         // id -> silence
	// Disturb are instants at which the instance was reloaded, (re)started or crashed.
	Disturb []Dur
	// Starts are the instants at which an incarnation of the process started:
	// alerts are not persisted, so submissions before the latest start are gone.
	Starts         []Dur
	Breaks         []Dur // every instant at which some predicate may change
	ResolveTimeout Dur
	cal            map[string]*TimeInterval
	keyRoutes      map[string]map[*MRoute]bool
	// Union: notifications of every instance count (cluster: any instance may discharge an obligation).
	Union bool
	roots map[int]*MRoute
}

func (m *Model) mine(n *Notif) bool { return m.Union || n.Inst == m.Name }

// cfgAt returns the index of the configuration in force at t (initial one, then
// whatever accepted reloads installed).
func (m *Model) cfgAt(t Dur) int {
	idx := m.P.Insts[m.Inst].Cfg
	for _, e := range m.H.Events {
		if e.Inst == m.Name && e.Kind == "reload" && e.T <= t {
			fmt.Sscanf(e.Msg, "cfg=%d", &idx)
		}
	}
	return idx
}

// repAt returns the repeat_interval of route r under the configuration in force
// at t. Reloads in generated plans change timers only, never the shape of the
// tree, so a route is found again by its position path.
func (m *Model) repAt(r *MRoute, t Dur) Dur {
	idx := m.cfgAt(t)
	if idx == m.P.Insts[m.Inst].Cfg || idx < 0 || idx >= len(m.P.Configs) || m.P.Configs[idx].Route == nil {
		return r.RepeatInterval
	}
	if m.roots == nil {
		m.roots = map[int]*MRoute{}
	}
	root := m.roots[idx]
	if root == nil {
		root = buildRoutes(m.P.Configs[idx].Route, nil, "0")
		m.roots[idx] = root
	}
	out := r.RepeatInterval
	root.Walk(func(x *MRoute) {
		if x.Path == r.Path {
			out = x.RepeatInterval
		}
	})
	return out
}

// KeyRoutes maps every (receiver, group key) seen in this instance's
// notifications to the routes it can belong to: the routes r with that receiver
// which the reference router selects for every listed alert and whose group_by
// gives exactly the notification's group labels (intersection over all
// notifications with that key). Group keys are opaque; what is used is only
// that one key names one (matcher path, group labels) pair, so a route pinned
// to one key is removed from the candidates of every other key with the same
// receiver and group labels unless the two routes have identical matcher paths.
func (m *Model) KeyRoutes() map[string]map[*MRoute]bool {
	if m.keyRoutes != nil {
		return m.keyRoutes
	}
	m.keyRoutes = map[string]map[*MRoute]bool{}
	gls := map[string]string{}
	for _, n := range m.H.Notifs {
		if !m.mine(n) {
			continue
		}
		k := n.Receiver + "\x00" + n.GroupKey
		gls[k] = n.Receiver + "\x00" + labelsKey(n.GroupLabels)
		for _, a := range n.Alerts {
			cand := map[*MRoute]bool{}
			for _, r := range m.Root.Match(a.Labels) {
				if r.Receiver == n.Receiver && sameLabels(r.GroupLabels(a.Labels), n.GroupLabels) {
					cand[r] = true
				}
			}
			cur, ok := m.keyRoutes[k]
			if !ok {
				m.keyRoutes[k] = cand
				continue
			}
			for r := range cur {
				if !cand[r] {
					delete(cur, r)
				}
			}
		}
	}
	// Narrow what is still ambiguous by looking for the route's own matchers in the
	// key text (only ever narrows; if nothing is left the set is kept as it was).
	for k, c := range m.keyRoutes {
		if len(c) < 2 {
			continue
		}
		gkey := k[strings.IndexByte(k, 0)+1:]
		keep := map[*MRoute]bool{}
		for r := range c {
			ok := true
			for x := r; x != nil; x = x.Parent {
				for _, mm := range x.Matchers {
					if !strings.Contains(gkey, mm.String()) {
						ok = false
					}
				}
			}
			if ok {
				keep[r] = true
			}
		}
		if len(keep) > 0 && len(keep) < len(c) {
			m.keyRoutes[k] = keep
		}
	}
	for changed := true; changed; {
		changed = false
		for k, c := range m.keyRoutes {
			if len(c) != 1 {
				continue
			}
			var pinned *MRoute
			for r := range c {
				pinned = r
			}
			for k2, c2 := range m.keyRoutes {
				if k2 == k || gls[k2] != gls[k] || len(c2) < 2 {
					continue
				}
				for r := range c2 {
					if r == pinned || (r != pinned && r.matcherPath() == pinned.matcherPath() && false) {
						delete(c2, r)
						changed = true
					}
				}
			}
		}
	}
	return m.keyRoutes
}

// RoutesOf returns the candidate routes of a notification.
func (m *Model) RoutesOf(n *Notif) map[*MRoute]bool {
	return m.KeyRoutes()[n.Receiver+"\x00"+n.GroupKey]
}

const eps = 1500 * time.Millisecond

// BuildModel replays the accepted client actions of instance inst.
func BuildModel(p *Plan, h *History, inst int) *Model {
	m := &Model{P: p, H: h, Inst: inst, Name: p.Insts[inst].Name, Subs: map[string][]subm{}, Labels: map[string]map[string]string{}, Sils: map[string]*mSilence{}, cal: map[string]*TimeInterval{}}
	m.Cfg = p.Configs[p.Insts[inst].Cfg]
	m.Root = buildRoutes(m.Cfg.Route, nil, "0")
	m.ResolveTimeout = m.Cfg.ResolveTimeout
	if m.ResolveTimeout == 0 {
		m.ResolveTimeout = 5 * time.Minute
	}
	for i := range m.Cfg.Intervals {
		m.cal[m.Cfg.Intervals[i].Name] = &m.Cfg.Intervals[i]
	}
	br := map[Dur]bool{}
	for _, e := range h.Events {
		if e.Inst == m.Name && (e.Kind == "start" || e.Kind == "stop" || e.Kind == "crash" || e.Kind == "reload") {
			m.Disturb = append(m.Disturb, e.T)
		}
		if e.Inst == m.Name && e.Kind == "start" {
			m.Starts = append(m.Starts, e.T)
		}
	}
	for _, rec := range h.API {
		if rec.Inst != m.Name || rec.Action < 0 || rec.Action >= len(p.Actions) {
			continue
		}
		a := &p.Actions[rec.Action]
		switch a.Kind {
		case "post":
			if rec.Code != 200 && rec.Code != 400 {
				continue
			}
			for _, al := range a.Alerts {
				if !validPAlert(&al) {
					continue
				}
				lk := labelsKey(cleanLabels(al.Labels))
				m.Labels[lk] = cleanLabels(al.Labels)
				s := subm{T: rec.T, Start: rec.T}
				switch {
				case al.EndAbs != nil:
					s.End, s.Explicit = *al.EndAbs, true
				case al.EndOff != nil:
					s.End, s.Explicit = rec.T+*al.EndOff, true
				default:
					s.End = rec.T + m.ResolveTimeout
				}
				m.Subs[lk] = append(m.Subs[lk], s)
				br[s.T], br[s.End] = true, true
			}
		case "silence":
			if rec.Code != 200 {
				continue
			}
			id := silIDFromResp(rec.Resp)
			start, end := rec.T+a.Sil.StartOff, rec.T+a.Sil.EndOff
			// the times actually sent (KeepStart/KeepEnd edits send the stored ones)
			var sent struct {
				StartsAt time.Time `json:"startsAt"`
				EndsAt   time.Time `json:"endsAt"`
			}
			if json.Unmarshal([]byte(rec.Body), &sent) == nil && !sent.EndsAt.IsZero() {
				start, end = sent.StartsAt.Sub(p.Start), sent.EndsAt.Sub(p.Start)
			}
			oldID := ""
			if a.Sil.EditOf != "" {
				oldID = m.silIDForKeyAt(a.Sil.EditOf, rec)
			}
			if oldID != "" && oldID == id {
				s := m.Sils[id]
				if s != nil {
					s.Vers = append(s.Vers, silVer{From: rec.T, Start: start, End: end})
				}
			} else {
				if old := m.Sils[oldID]; old != nil {
					// history-rewriting edit: the old silence is expired now (if not already over)
					lv := old.Vers[len(old.Vers)-1]
					if lv.End > rec.T {
						st := lv.Start
						if st > rec.T {
							st = rec.T
						}
						old.Vers = append(old.Vers, silVer{From: rec.T, Start: st, End: rec.T})
					}
				}
				if start < rec.T {
					start = rec.T
				}
				m.Sils[id] = &mSilence{ID: id, Matchers: a.Sil.Matchers, Vers: []silVer{{From: rec.T, Start: start, End: end}}}
			}
			br[rec.T], br[start], br[end] = true, true, true
		case "expire":
			if rec.Code != 200 {
				continue
			}
			id := strings.TrimPrefix(rec.Path, "/api/v2/silence/")
			if s := m.Sils[id]; s != nil {
				lv := s.Vers[len(s.Vers)-1]
				if lv.End > rec.T {
					st := lv.Start
					if st > rec.T {
						st = rec.T
					}
					s.Vers = append(s.Vers, silVer{From: rec.T, Start: st, End: rec.T})
				}
			}
			br[rec.T] = true
		}
	}
	for t := range br {
		m.Breaks = append(m.Breaks, t)
	}
	for _, d := range m.Disturb {
		m.Breaks = append(m.Breaks, d)
	}
	sort.Slice(m.Breaks, func(i, j int) bool { return m.Breaks[i] < m.Breaks[j] })
	return m
}

func silIDFromResp(resp string) string {
	i := strings.Index(resp, `"silenceID":"`)
	if i < 0 {
		return ""
	}
	s := resp[i+13:]
	if j := strings.IndexByte(s, '"'); j >= 0 {
		return s[:j]
	}
	return ""
}

// silIDForKeyAt finds the id that plan key had when rec was sent: the id in the request body.
func (m *Model) silIDForKeyAt(key string, rec *APIRec) string {
	i := strings.Index(rec.Body, `"id":"`)
	if i < 0 {
		return ""
	}
	s := rec.Body[i+6:]
	if j := strings.IndexByte(s, '"'); j >= 0 {
		return s[:j]
	}
	return ""
}

func cleanLabels(ls map[string]string) map[string]string {
	out := map[string]string{}
	for k, v := range ls {
		if v != "" {
			out[k] = v
		}
	}
	return out
}

func validPAlert(a *PAlert) bool {
	if len(cleanLabels(a.Labels)) == 0 {
		return false
	}
	for k := range a.Labels {
		if k == "" {
			return false
		}
	}
	return true
}

// Firing reports whether, by the ingestion contract, alert lk fires at t.
// Only the generator's unambiguous submission shapes are supported: the end
// time in force is that of the latest accepted submission.
func (m *Model) Firing(lk string, t Dur) bool {
	subs := m.Subs[lk]
	born := m.bornAt(t)
	var cur *subm
	for i := range subs {
		if subs[i].T <= t && subs[i].T >= born {
			cur = &subs[i]
		}
	}
	return cur != nil && cur.End > t && cur.Start <= t
}

// bornAt returns the start instant of the incarnation running at t.
func (m *Model) bornAt(t Dur) Dur {
	var b Dur
	for _, s := range m.Starts {
		if s <= t {
			b = s
		}
	}
	return b
}

// EndInForce returns the end time of lk in force at t (ok=false if never submitted).
func (m *Model) EndInForce(lk string, t Dur) (Dur, bool) {
	subs := m.Subs[lk]
	born := m.bornAt(t)
	var cur *subm
	for i := range subs {
		if subs[i].T <= t && subs[i].T >= born {
			cur = &subs[i]
		}
	}
	if cur == nil {
		return 0, false
	}
	return cur.End, true
}

func (s *mSilence) verAt(t Dur) *silVer {
	var v *silVer
	for i := range s.Vers {
		if s.Vers[i].From <= t {
			v = &s.Vers[i]
		}
	}
	return v
}

// SilencedBy returns the ids of silences active at t that match ls.
func (m *Model) SilencedBy(ls map[string]string, t Dur) []string {
	var out []string
	for id, s := range m.Sils {
		v := s.verAt(t)
		if v == nil || t < v.Start || t > v.End {
			continue
		}
		if matchAll(s.Matchers, ls) {
			out = append(out, id)
		}
	}
	sort.Strings(out)
	return out
}

// InhibitedBy returns the label keys of firing source alerts that inhibit ls at t.
func (m *Model) InhibitedBy(ls map[string]string, t Dur) []string {
	var out []string
	for _, rule := range m.Cfg.Inhibits {
		if !matchAll(rule.Target, ls) {
			continue
		}
		selfSource := matchAll(rule.Source, ls)
		for sk, sl := range m.Labels {
			if !m.Firing(sk, t) || !matchAll(rule.Source, sl) {
				continue
			}
			eq := true
			for _, e := range rule.Equal {
				if sl[e] != ls[e] {
					eq = false
					break
				}
			}
			if !eq {
				continue
			}
			if selfSource && matchAll(rule.Target, sl) {
				continue
			}
			out = append(out, sk)
		}
	}
	sort.Strings(out)
	return out
}

// TimeMuted reports whether route r is muted by its time intervals at t, and by which names.
func (m *Model) TimeMuted(r *MRoute, t Dur) (bool, []string) {
	at := m.P.Start.Add(t)
	if len(r.Active) > 0 {
		any := false
		for _, n := range r.Active {
			if ti := m.cal[n]; ti != nil && calContains(ti, at) {
				any = true
			}
		}
		if !any {
			return true, append([]string(nil), r.Active...)
		}
	}
	var by []string
	for _, n := range r.Mute {
		if ti := m.cal[n]; ti != nil && calContains(ti, at) {
			by = append(by, n)
		}
	}
	return len(by) > 0, by
}

// Suppressed: silenced or inhibited (route independent).
func (m *Model) Suppressed(ls map[string]string, t Dur) bool {
	return len(m.SilencedBy(ls, t)) > 0 || len(m.InhibitedBy(ls, t)) > 0
}

// Eligible: firing, not silenced, not inhibited, route not time-muted.
func (m *Model) Eligible(lk string, r *MRoute, t Dur) bool {
	ls := m.Labels[lk]
	if !m.Firing(lk, t) || m.Suppressed(ls, t) {
		return false
	}
	if len(r.Mute) > 0 || len(r.Active) > 0 {
		if muted, _ := m.TimeMuted(r, t); muted {
			return false
		}
	}
	return true
}

// samplePoints returns the instants at which a predicate has to be evaluated to
// know it over [from,to]: the ends, every break point with both sides, and (if
// time intervals are configured) every minute boundary.
func (m *Model) samplePoints(from, to Dur, calendar bool) []Dur {
	pts := []Dur{from, to}
	for _, b := range m.Breaks {
		if b >= from && b <= to {
			pts = append(pts, b-time.Millisecond, b, b+time.Millisecond)
		}
	}
	if calendar && len(m.cal) > 0 {
		first := m.P.Start.Add(from).Truncate(time.Minute).Add(time.Minute)
		for x := first; !x.After(m.P.Start.Add(to)); x = x.Add(time.Minute) {
			o := x.Sub(m.P.Start)
			pts = append(pts, o-time.Millisecond, o)
		}
	}
	out := pts[:0]
	for _, x := range pts {
		if x >= from && x <= to {
			out = append(out, x)
		}
	}
	sort.Slice(out, func(i, j int) bool { return out[i] < out[j] })
	return out
}

// Throughout reports whether pred holds at every instant of [from,to].
func (m *Model) Throughout(from, to Dur, calendar bool, pred func(Dur) bool) bool {
	if to < from {
		return false
	}
	for _, t := range m.samplePoints(from, to, calendar) {
		if !pred(t) {
			return false
		}
	}
	return true
}

// Sometime reports whether pred holds at some instant of [from,to].
func (m *Model) Sometime(from, to Dur, calendar bool, pred func(Dur) bool) bool {
	if to < from {
		return false
	}
	for _, t := range m.samplePoints(from, to, calendar) {
		if pred(t) {
			return true
		}
	}
	return false
}

// Intervals returns the maximal spans of [0,horizon] on which pred holds.
func (m *Model) Intervals(calendar bool, pred func(Dur) bool) []Span {
	pts := m.samplePoints(0, m.P.Horizon, calendar)
	var out []Span
	var cur *Span
	for _, t := range pts {
		if pred(t) {
			if cur == nil {
				cur = &Span{From: t, To: t}
			} else {
				cur.To = t
			}
		} else if cur != nil {
			out = append(out, *cur)
			cur = nil
		}
	}
	if cur != nil {
		out = append(out, *cur)
	}
	return out
}

// Disturbed reports whether the instance was (re)started, reloaded or crashed in [from,to].
// OnlyReloads reports whether every disturbance of the instance in [from,to] is
// an accepted configuration reload, and the instant of the last one.
func (m *Model) OnlyReloads(from, to Dur) (last Dur, ok bool) {
	ok = true
	for _, e := range m.H.Events {
		if e.Inst != m.Name || e.T < from || e.T > to {
			continue
		}
		switch e.Kind {
		case "reload":
			last = e.T
		case "start", "stop", "crash":
			ok = false
		}
	}
	return last, ok && last > 0
}

// AlertGCBetween reports whether a garbage collection of the alert provider
// (every alert_gc_interval since the instance started) fell into [from,to].
func (m *Model) AlertGCBetween(from, to Dur) bool {
	iv := m.P.Opts.AlertGCInterval
	if iv <= 0 {
		iv = 30 * time.Minute
	}
	var st Dur
	for _, s := range m.Starts {
		if s <= from {
			st = s
		}
	}
	for t := st + iv; t <= to+eps; t += iv {
		if t >= from-eps {
			return true
		}
	}
	return false
}

func (m *Model) Disturbed(from, to Dur) bool {
	for _, d := range m.Disturb {
		if d >= from && d <= to {
			return true
		}
	}
	return false
}

// FaultIn reports whether a receiver fault window of (receiver, integ) overlaps [from,to].
func (m *Model) FaultIn(receiver string, integ int, from, to Dur) bool {
	for _, f := range m.P.Faults {
		if (f.Inst == -1 || f.Inst == m.Inst) && f.Receiver == receiver && f.Integ == integ && f.From <= to && f.To >= from {
			return true
		}
	}
	return false
}

func (m *Model) receiver(name string) *Receiver {
	for i := range m.Cfg.Receivers {
		if m.Cfg.Receivers[i].Name == name {
			return &m.Cfg.Receivers[i]
		}
	}
	return nil
}

func flushTimeout(gi Dur) Dur {
	if gi < 10*time.Second {
		return 10 * time.Second
	}
	return gi
}

func sameLabels(a, b map[string]string) bool {
	if len(a) != len(b) {
		return false
	}
	for k, v := range a {
		if b[k] != v {
			return false
		}
	}
	return true
}
