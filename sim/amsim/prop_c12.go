package amsim

import (
	"encoding/json"
	"fmt"
	"regexp"
	"sort"
	"strings"
	"time"
)

// C12 — silence lifecycle: ids are stable, history is immutable, retention is honoured.
//
// A reference state machine, written from the property statement, is stepped with
// every API call (using the request that was actually sent and the instant it was
// sent at) and compared with GET /api/v2/silences one millisecond after each call.

type c12Sil struct {
	ID                 string
	Matchers           string // canonical
	Start, End         time.Time
	AltStart           *time.Time // in-place edit of an active silence: either start is acceptable
	Comment, CreatedBy string
	Updated            time.Time
	EverExpired        bool
}

type c12Req struct {
	ID        string    `json:"id"`
	StartsAt  time.Time `json:"startsAt"`
	EndsAt    time.Time `json:"endsAt"`
	CreatedBy string    `json:"createdBy"`
	Comment   string    `json:"comment"`
	Matchers  []struct {
		Name    string `json:"name"`
		Value   string `json:"value"`
		IsRegex bool   `json:"isRegex"`
		IsEqual bool   `json:"isEqual"`
	} `json:"matchers"`
}

func (r *c12Req) canonMatchers() string {
	var ms []string
	for _, m := range r.Matchers {
		ms = append(ms, fmt.Sprintf("%s|%v|%v|%s", m.Name, m.IsEqual, m.IsRegex, m.Value))
	}
	return strings.Join(ms, ",")
}

func canonAPIMatchers(s *APISilence) string {
	var ms []string
	for _, m := range s.Matchers {
		eq := true
		if m.IsEqual != nil {
			eq = *m.IsEqual
		}
		ms = append(ms, fmt.Sprintf("%s|%v|%v|%s", m.Name, eq, m.IsRegex, m.Value))
	}
	return strings.Join(ms, ",")
}

// validMatchers: every matcher well formed, and not all of them match the empty string.
func (r *c12Req) validMatchers() bool {
	if len(r.Matchers) == 0 {
		return false
	}
	allEmpty := true
	for _, m := range r.Matchers {
		if m.Name == "" {
			return false
		}
		matchesEmpty := false
		if m.IsRegex {
			re, err := regexp.Compile("^(?:" + m.Value + ")$")
			if err != nil {
				return false
			}
			if m.IsEqual {
				matchesEmpty = re.MatchString("")
			}
		} else if m.IsEqual {
			matchesEmpty = m.Value == ""
		}
		allEmpty = allEmpty && matchesEmpty
	}
	return !allEmpty
}

func c12State(s *c12Sil, now time.Time) string {
	if now.Before(s.Start) {
		return "pending"
	}
	if now.After(s.End) {
		return "expired"
	}
	return "active"
}

func c12Gen(seed uint64, tier string) *Plan {
	rng := NewRng(seed)
	start := BubbleEpoch.Add(30*24*time.Hour + Dur(rng.Intn(86400*100))*time.Second)
	p := &Plan{Prop: "C12", Family: "single", Seed: seed, Start: start}
	ret := rng.Dur(30*time.Second, 8*time.Minute)
	maint := rng.Dur(20*time.Second, 4*time.Minute) + 13
	cfg := &Config{Route: &Route{Receiver: "r0"}, Receivers: []Receiver{{Name: "r0", Webhooks: []Webhook{{SendResolved: true}}}}}
	p.Configs = []*Config{cfg}
	p.Insts = []InstPlan{{Name: "a"}}
	p.Opts = InstOpts{Retention: ret, MaintenanceInterval: maint, AlertGCInterval: 30*time.Minute + 29, DispatchMaintenance: 30*time.Second + 7}
	if rng.Bool(0.3) {
		p.Opts.MaxSilences = rng.Range(2, 5)
	}
	if rng.Bool(0.3) {
		p.Opts.MaxSilenceSize = rng.Range(150, 400)
	}
	b := &planBuilder{p: p, used: map[Dur]bool{}}
	op := func(at Dur, a Action) {
		a.At = at
		t := b.add(a)
		b.add(Action{At: t + time.Millisecond, Kind: "get_silences", Str: "after-op"})
	}
	nkeys := rng.Range(1, 4)
	matcherChoices := [][]M{{{"alertname", "=", "A"}}, {{"alertname", "=~", "A|B"}, {"job", "!=", "x"}}, {{"job", "=", "j1"}}, {{"severity", "!~", "info"}, {"alertname", "=", "C"}}}
	var horizon Dur
	for k := 0; k < nkeys; k++ {
		key := fmt.Sprintf("s%d", k)
		t0 := rng.Dur(time.Second, 3*time.Minute)
		S := Pick(rng, []Dur{0, 0, 20 * time.Second, 90 * time.Second})
		E := S + rng.Dur(10*time.Second, 6*time.Minute)
		ms := Pick(rng, matcherChoices)
		op(t0, Action{Kind: "silence", Sil: &PSilence{Key: key, Matchers: ms, StartOff: S, EndOff: E, Comment: "c0", CreatedBy: "u0"}})
		st, en := t0+S, t0+E
		marks := []Dur{st - time.Second, st - time.Millisecond, st + time.Millisecond, st + time.Second, (st + en) / 2, en - time.Second, en - time.Millisecond, en + time.Millisecond, en + time.Second,
			en + ret - time.Second, en + ret + time.Second, en + ret + maint + time.Second, t0 + time.Second}
		nops := rng.Range(2, 9)
		if tier == "thorough" {
			nops = rng.Range(4, 16)
		}
		for i := 0; i < nops; i++ {
			at := Pick(rng, marks) + Dur(rng.Intn(3))*time.Millisecond
			if rng.Bool(0.3) {
				at = rng.Dur(t0, en+ret+maint)
			}
			if at <= t0 {
				at = t0 + time.Second
			}
			e := &PSilence{Key: key, EditOf: key, Matchers: ms, Comment: "c0", CreatedBy: "u0", KeepStart: true, KeepEnd: true}
			switch rng.Intn(12) {
			case 0:
				e.Comment = fmt.Sprintf("c%d", i+1)
				op(at, Action{Kind: "silence", Sil: e})
			case 1:
				e.CreatedBy = fmt.Sprintf("u%d", i+1)
				op(at, Action{Kind: "silence", Sil: e})
			case 2, 3: // move the end (may land in the past -> rejected)
				e.KeepEnd = false
				e.EndOff = Pick(rng, []Dur{-time.Minute, -time.Second, time.Second, 30 * time.Second, 5 * time.Minute})
				op(at, Action{Kind: "silence", Sil: e})
			case 4: // move the start
				e.KeepStart = false
				e.StartOff = Pick(rng, []Dur{-time.Minute, -2 * time.Second, 2 * time.Second, time.Minute})
				op(at, Action{Kind: "silence", Sil: e})
			case 5: // other matchers (another set, or only an operator flipped), sometimes oversize
				if rng.Bool(0.4) {
					fl := append([]M(nil), ms...)
					j := rng.Intn(len(fl))
					fl[j].Op = map[string]string{"=": "!=", "!=": "=", "=~": "!~", "!~": "=~"}[fl[j].Op]
					e.Matchers = fl
				} else {
					e.Matchers = Pick(rng, matcherChoices)
				}
				if p.Opts.MaxSilenceSize > 0 && rng.Bool(0.4) {
					e.Comment = strings.Repeat("z", p.Opts.MaxSilenceSize+rng.Range(1, 200))
				}
				op(at, Action{Kind: "silence", Sil: e})
			case 6, 7:
				op(at, Action{Kind: "expire", SilKey: key})
			case 8:
				op(at, Action{Kind: "silence_gc"})
			case 9: // invalid inputs
				bad := &PSilence{Key: "bad", Comment: "c", CreatedBy: "u", StartOff: 0, EndOff: time.Minute}
				switch rng.Intn(5) {
				case 0:
					bad.Matchers = []M{{"alertname", "=", ""}}
				case 1:
					bad.Matchers = []M{{"alertname", "=~", ".*"}}
				case 2:
					bad.Matchers = []M{{"alertname", "=~", "a[b"}}
				case 3:
					bad.Matchers, bad.StartOff, bad.EndOff = ms, time.Minute, 10*time.Second
				case 4:
					bad.Matchers, bad.StartOff, bad.EndOff = ms, -time.Minute, -time.Second
				}
				op(at, Action{Kind: "silence", Sil: bad})
			case 10: // unknown id
				e.RawID = "6b1f6f0c-0000-4000-8000-00000000dead"
				op(at, Action{Kind: "silence", Sil: e})
			case 11: // oversize comment / plain create of another silence
				x := &PSilence{Key: fmt.Sprintf("%s-x%d", key, i), Matchers: Pick(rng, matcherChoices), EndOff: rng.Dur(20*time.Second, 3*time.Minute), Comment: strings.Repeat("y", rng.Range(1, 500)), CreatedBy: "u"}
				op(at, Action{Kind: "silence", Sil: x})
			}
			if at+time.Second > horizon {
				horizon = at + time.Second
			}
		}
		if en+ret+maint+2*time.Second > horizon {
			horizon = en + ret + maint + 2*time.Second
		}
	}
	p.Horizon = horizon + time.Second
	b.add(Action{At: horizon, Kind: "get_silences", Str: "after-op"})
	p.SortActions()
	if ra := rng.Fork("autoholds"); ra.Bool(0.3) {
		p.Holds = append(p.Holds, AutoHolds(ra, AutoSitesSilence[:2], ra.Range(1, 2), 24, 50*time.Millisecond, 60*time.Second)...)
	}
	return p
}

func init() {
	RegisterAction("silence_gc", func(w *World, idx int, a *Action) {
		in := w.Insts[a.Inst]
		if in.App == nil {
			return
		}
		n, err := in.Int.Silences.GC()
		w.H.AddEvent("silence-gc", in.Name, fmt.Sprintf("n=%d err=%v", n, err))
	})
}

func c12Check(p *Plan, r *RunResult) *Verdict {
	v := &Verdict{}
	model := map[string]*c12Sil{}
	seenIDs := map[string]bool{}
	ret := p.Opts.Retention
	maxN, maxSize := p.Opts.MaxSilences, p.Opts.MaxSilenceSize
	// instants of explicit GC runs and of maintenance GC are not needed: presence is
	// required before end+retention and absence only after a GC that ran past it
	var gcs []Dur
	for _, e := range r.H.Events {
		if e.Kind == "silence-gc" {
			gcs = append(gcs, e.T)
		}
	}
	maint := p.Opts.MaintenanceInterval
	lastChange := ""
	// a silence past end+retention may have been collected by a maintenance GC at any time
	collectable := func(s *c12Sil, now time.Time) bool { return !now.Before(s.End.Add(ret)) }
	surelyStored := func(now time.Time) int {
		n := 0
		for _, s := range model {
			if !collectable(s, now) {
				n++
			}
		}
		return n
	}
	for _, rec := range r.H.API {
		if rec.Action < 0 {
			continue
		}
		a := &p.Actions[rec.Action]
		now := p.Start.Add(rec.T)
		switch a.Kind {
		case "silence":
			var req c12Req
			if json.Unmarshal([]byte(rec.Body), &req) != nil {
				continue
			}
			v.Ob("post-silence-response")
			size := len(req.Comment) + len(req.CreatedBy) + len(req.canonMatchers())
			mayBeOversize := maxSize > 0 && size+120 > maxSize // encoded size is not reproduced exactly
			surelyOversize := maxSize > 0 && size > maxSize
			valid := req.validMatchers() && req.EndsAt.After(req.StartsAt) && !req.EndsAt.Before(now)
			old := model[req.ID]
			if old != nil && collectable(old, now) && rec.Code == 404 {
				// collected in the meantime: an unknown id now
				delete(model, req.ID)
				lastChange = "rejected"
				continue
			}
			newID := silIDFromResp(rec.Resp)
			fail := func(sig, format string, args ...any) {
				v.Fail("C12", "C12/"+sig, rec.T, format, args...)
			}
			switch {
			case !valid:
				if rec.Code == 200 {
					fail("invalid-silence-accepted", "invalid silence accepted (matchers %s start %v end %v now %v): %s", req.canonMatchers(), req.StartsAt.Sub(p.Start), req.EndsAt.Sub(p.Start), rec.T, rec.Resp)
				}
				lastChange = "rejected"
				continue
			case req.ID != "" && old == nil:
				if rec.Code == 200 {
					fail("unknown-id-accepted", "edit of unknown id %s accepted", req.ID)
				}
				lastChange = "rejected"
				continue
			}
			// in-place?
			inPlace := false
			altStart := false
			if old != nil && old.Matchers == req.canonMatchers() {
				switch c12State(old, now) {
				case "active":
					sameStart := old.Start.Unix() == req.StartsAt.Unix() || (old.AltStart != nil && old.AltStart.Unix() == req.StartsAt.Unix())
					inPlace = sameStart && !req.EndsAt.Before(now)
					altStart = true
				case "pending":
					inPlace = !req.StartsAt.Before(now)
				}
			}
			if rec.Code != 200 {
				// a valid request may only be refused by a limit
				countFull := maxN > 0 && !inPlace && len(model)+1 > maxN
				if !(countFull || mayBeOversize) {
					fail("valid-silence-rejected", "valid request rejected with %d: %s", rec.Code, strings.TrimSpace(rec.Resp))
				}
				lastChange = "rejected"
				continue
			}
			if surelyOversize {
				fail("oversize-silence-accepted", "silence with %d bytes of strings accepted under a size limit of %d", size, maxSize)
			}
			if inPlace {
				v.Ob("in-place-edit-keeps-id")
				if newID != req.ID {
					fail("id-changed-on-compatible-edit", "edit of comment/creator/end (or start of a pending silence) of %s returned a new id %s", req.ID, newID)
					continue
				}
				oldStart := old.Start
				old.Start, old.End, old.Comment, old.CreatedBy, old.Updated = req.StartsAt, req.EndsAt, req.Comment, req.CreatedBy, now
				old.AltStart = nil
				if altStart && !oldStart.Equal(req.StartsAt) {
					old.AltStart = &oldStart
				}
				lastChange = "edit " + req.ID
				continue
			}
			// create or replace
			v.Ob("create-or-replace-returns-fresh-id")
			if n := surelyStored(now); maxN > 0 && n+1 > maxN {
				fail("count-limit-exceeded", "silence created although at least %d are stored (limit %d)", n, maxN)
			}
			if newID == "" || seenIDs[newID] {
				fail("id-not-fresh", "create/replace returned id %q which is empty or was used before", newID)
				continue
			}
			seenIDs[newID] = true
			if old != nil && c12State(old, now) != "expired" {
				if c12State(old, now) == "pending" {
					old.Start = now
				}
				old.End, old.Updated = now, now
				old.AltStart = nil
			}
			st := req.StartsAt
			if st.Before(now) {
				st = now
			}
			model[newID] = &c12Sil{ID: newID, Matchers: req.canonMatchers(), Start: st, End: req.EndsAt, Comment: req.Comment, CreatedBy: req.CreatedBy, Updated: now}
			lastChange = "create " + newID
		case "expire":
			id := strings.TrimPrefix(rec.Path, "/api/v2/silence/")
			s := model[id]
			v.Ob("expire-response")
			if s == nil {
				if rec.Code == 200 {
					v.Fail("C12", "C12/unknown-id-accepted", rec.T, "DELETE of unknown id %s answered 200", id)
				}
				continue
			}
			if rec.Code == 404 && collectable(s, now) {
				delete(model, id)
				continue
			}
			if rec.Code != 200 {
				v.Fail("C12", "C12/expire-failed", rec.T, "DELETE of stored silence %s answered %d", id, rec.Code)
				continue
			}
			switch c12State(s, now) {
			case "active":
				s.End, s.Updated = now, now
			case "pending":
				s.Start, s.End, s.Updated = now, now, now
			}
			s.AltStart = nil
			lastChange = "expire " + id
		case "get_silences":
			if rec.Code != 200 {
				continue
			}
			var got []APISilence
			if jsonUnmarshal(rec.Resp, &got) != nil {
				continue
			}
			byID := map[string]*APISilence{}
			for i := range got {
				if byID[got[i].ID] != nil {
					v.Fail("C12", "C12/duplicate-id", rec.T, "GET /silences lists id %s twice", got[i].ID)
				}
				byID[got[i].ID] = &got[i]
			}
			ids := make([]string, 0, len(model))
			for id := range model {
				ids = append(ids, id)
			}
			sort.Strings(ids)
			for _, id := range ids {
				s := model[id]
				g := byID[id]
				gcAt := s.End.Add(ret)
				if g == nil {
					// allowed only after a GC that ran at or after end+retention
					collected := false
					for _, t := range gcs {
						if !p.Start.Add(t).Before(gcAt) && t <= rec.T {
							collected = true
						}
					}
					// maintenance GC: some tick in [gcAt, now]
					if !now.Before(gcAt) {
						collected = true
					}
					v.Ob("queryable-until-end-plus-retention")
					if !collected {
						sig := "C12/silence-lost-before-retention"
						if st := c12State(s, now); st != "expired" {
							sig = "C12/" + st + "-silence-garbage-collected"
						}
						v.Fail("C12", sig, rec.T, "silence %s (end %v, retention %v) is gone at %v (after %s)", id, s.End.Sub(p.Start), ret, rec.T, lastChange)
					}
					delete(model, id)
					continue
				}
				// must be gone after a GC that ran past end+retention
				for _, t := range gcs {
					if p.Start.Add(t).After(gcAt) && t < rec.T {
						v.Fail("C12", "C12/silence-kept-after-gc-past-retention", rec.T, "silence %s (end+retention %v) is still stored after the GC at %v", id, gcAt.Sub(p.Start), t)
					}
				}
				if now.Sub(gcAt) > maint+2*time.Second+p.AutoSlack() {
					v.Fail("C12", "C12/silence-kept-after-gc-past-retention", rec.T, "silence %s (end+retention %v) is still stored at %v although a maintenance GC (every %v) ran since", id, gcAt.Sub(p.Start), rec.T, maint)
				}
				v.Ob("stored-silence-matches-lifecycle-model")
				startOK := g.StartsAt.Equal(s.Start) || (s.AltStart != nil && g.StartsAt.Equal(*s.AltStart))
				if !startOK || !g.EndsAt.Equal(s.End) {
					sig := "C12/times-wrong"
					if st := c12State(s, now); st == "expired" && g.EndsAt.After(now) {
						sig = "C12/expired-silence-not-expired"
					}
					v.Fail("C12", sig, rec.T, "silence %s has start %v end %v, lifecycle model says start %v end %v (after %s)", id, g.StartsAt.Sub(p.Start), g.EndsAt.Sub(p.Start), s.Start.Sub(p.Start), s.End.Sub(p.Start), lastChange)
					continue
				}
				if g.StartsAt.Equal(s.Start) {
					s.AltStart = nil
				} else {
					s.Start, s.AltStart = g.StartsAt, nil
				}
				if canonAPIMatchers(g) != s.Matchers {
					v.Fail("C12", "C12/matchers-changed-under-id", rec.T, "silence %s has matchers %s, it was created with %s", id, canonAPIMatchers(g), s.Matchers)
				}
				if g.Comment != s.Comment || g.CreatedBy != s.CreatedBy {
					v.Fail("C12", "C12/comment-or-creator-wrong", rec.T, "silence %s has comment %q creator %q, want %q %q", id, g.Comment, g.CreatedBy, s.Comment, s.CreatedBy)
				}
				// state by time; never active again once expired
				want := c12State(s, now)
				if now.Equal(s.End) || now.Equal(s.Start) {
					want = g.Status.State // exactly on a boundary: either reading is accepted
				}
				if g.Status.State != want {
					v.Fail("C12", "C12/state-wrong", rec.T, "silence %s reports state %s at %v, start %v end %v give %s", id, g.Status.State, rec.T, s.Start.Sub(p.Start), s.End.Sub(p.Start), want)
				}
				if s.EverExpired && g.Status.State != "expired" {
					v.Fail("C12", "C12/expired-silence-active-again", rec.T, "silence %s was expired and now reports %s", id, g.Status.State)
				}
				if g.Status.State == "expired" {
					s.EverExpired = true
				}
			}
			for id := range byID {
				if model[id] == nil {
					v.Fail("C12", "C12/unknown-silence-listed", rec.T, "GET /silences lists id %s which no accepted call created (after %s)", id, lastChange)
				}
			}
		}
	}
	return v
}

func init() {
	Register(&Prop{
		ID: "C12", Level: "exploration", Gen: c12Gen, Check: c12Check,
		Rule:        "seeded sequence over 1-4 silences: create (active or pending), then 2-9 (thorough 4-16) operations per silence placed at +-1 ms / +-1 s around its start, end and end+retention and at random instants: edit comment, creator, end (incl. into the past), start, matchers; expire; explicit GC; invalid creates (matchers matching the empty string, bad regex, end before start, end in the past); edits of an unknown id; extra creates with comments around the size limit; optional count and size limits; retention 30 s-8 min, maintenance GC every 20 s-4 min; GET /silences 1 ms after every call. Non-trivial: at least one response or listing was compared with the lifecycle model; distinct by abstract trace.",
		Real:        []string{"app.New wiring", "api/v2 silence handlers", "silence.Silences (Set, canUpdate, expire, GC, Query, Maintenance)"},
		Stub:        []string{"clock (synctest)", "client (in-memory HTTP)", "snapshot disk (simfs)"},
		Assumptions: []string{"operations are placed 1 ms or more away from start/end instants, never exactly on them", "an in-place edit of an active silence may store either the old or the submitted start (same second)", "a request within 120 bytes of the size limit may be rejected or accepted (the encoded size is not reproduced)"},
	})
}
