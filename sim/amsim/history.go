package amsim

import (
	"crypto/sha256"
	"encoding/hex"
	"encoding/json"
	"fmt"
	"os"
	"sort"
	"strings"
	"sync"
	"time"
)

// NAlert is one alert as listed in a webhook payload.
type NAlert struct {
	Labels      map[string]string `json:"labels"`
	Annotations map[string]string `json:"annotations,omitempty"`
	Status      string            `json:"status"`
	StartsAt    time.Time         `json:"startsAt"`
	EndsAt      time.Time         `json:"endsAt"`
	Fingerprint string            `json:"fingerprint"`
	LKey        string            `json:"-"`
}

// Notif is one HTTP request received by the simulated receiver world.
type Notif struct {
	Seq               int               `json:"seq"`
	T                 Dur               `json:"t"` // arrival, offset from plan start
	Inst              string            `json:"inst"`
	Receiver          string            `json:"receiver"`
	Integ             int               `json:"integ"`
	GroupKey          string            `json:"group_key"`
	Status            string            `json:"status"`
	GroupLabels       map[string]string `json:"group_labels"`
	CommonLabels      map[string]string `json:"common_labels"`
	CommonAnnotations map[string]string `json:"common_annotations,omitempty"`
	Truncated         int               `json:"truncated"`
	Alerts            []NAlert          `json:"alerts"`
	Outcome           string            `json:"outcome"` // 2xx 5xx 4xx hang reset
	Latency           Dur               `json:"latency,omitempty"`
	Done              Dur               `json:"done,omitempty"` // instant the response was written
	PayloadReceiver   string            `json:"payload_receiver"`
	BodyHash          string            `json:"body_hash"`
}

func (n *Notif) OK() bool { return n.Outcome == "2xx" }

// Firing / Resolved return the label keys listed with that status.
func (n *Notif) Firing() map[string]bool {
	m := map[string]bool{}
	for _, a := range n.Alerts {
		if a.Status == "firing" {
			m[a.LKey] = true
		}
	}
	return m
}

func (n *Notif) Resolved() map[string]bool {
	m := map[string]bool{}
	for _, a := range n.Alerts {
		if a.Status == "resolved" {
			m[a.LKey] = true
		}
	}
	return m
}

// APIRec is one client call with its response.
type APIRec struct {
	Seq    int    `json:"seq"`
	T      Dur    `json:"t"`
	Inst   string `json:"inst"`
	Action int    `json:"action"` // index into plan.Actions, -1 for harness-internal
	Method string `json:"method"`
	Path   string `json:"path"`
	Body   string `json:"body,omitempty"`
	Code   int    `json:"code"`
	Resp   string `json:"resp,omitempty"`
}

// Event is anything else worth recording (faults fired, lifecycle, probes).
type Event struct {
	T    Dur    `json:"t"`
	Kind string `json:"kind"`
	Inst string `json:"inst,omitempty"`
	Msg  string `json:"msg,omitempty"`
}

// History is everything that crossed the boundary of the simulated processes.
type History struct {
	mu     sync.Mutex
	Start  time.Time `json:"start"`
	Notifs []*Notif  `json:"notifs"`
	API    []*APIRec `json:"api"`
	Events []Event   `json:"events"`
	// Fired counts fault kinds that actually fired.
	Fired map[string]int `json:"fired"`
	// Probes counts "this rare condition was reached".
	Probes map[string]int `json:"probes"`
	seq    int
}

func NewHistory(start time.Time) *History {
	return &History{Start: start, Fired: map[string]int{}, Probes: map[string]int{}}
}

func (h *History) now() Dur { return time.Since(h.Start) }

func (h *History) AddEvent(kind, inst, msg string) {
	h.mu.Lock()
	h.Events = append(h.Events, Event{T: h.now(), Kind: kind, Inst: inst, Msg: msg})
	h.mu.Unlock()
}

func (h *History) Fire(kind string) {
	h.mu.Lock()
	h.Fired[kind]++
	h.mu.Unlock()
}

func (h *History) Probe(kind string) {
	h.mu.Lock()
	h.Probes[kind]++
	h.mu.Unlock()
}

func (h *History) addNotif(n *Notif) {
	h.mu.Lock()
	n.Seq = h.seq
	h.seq++
	h.Notifs = append(h.Notifs, n)
	h.mu.Unlock()
}

func (h *History) addAPI(a *APIRec) {
	h.mu.Lock()
	a.Seq = h.seq
	h.seq++
	h.API = append(h.API, a)
	h.mu.Unlock()
}

// Canon returns the canonical event log: one line per fact, facts of one
// instant sorted by content (so that the order in which goroutines woken at the
// same virtual instant ran does not show).
func (h *History) Canon() []string {
	h.mu.Lock()
	defer h.mu.Unlock()
	type line struct {
		t Dur
		s string
	}
	var ls []line
	for _, n := range h.Notifs {
		var as []string
		for _, a := range n.Alerts {
			as = append(as, a.LKey+":"+a.Status)
		}
		sort.Strings(as)
		ls = append(ls, line{n.T, fmt.Sprintf("notif %s %s/%d %s %s %s [%s] trunc=%d", n.Inst, n.Receiver, n.Integ, n.GroupKey, n.Status, n.Outcome, strings.Join(as, " "), n.Truncated)})
	}
	for _, a := range h.API {
		ls = append(ls, line{a.T, fmt.Sprintf("api %s %s %s %d %s", a.Inst, a.Method, a.Path, a.Code, shortHash(a.Resp))})
		if verboseBodies {
			ls = append(ls, line{a.T, "body " + a.Resp})
		}
	}
	for _, e := range h.Events {
		ls = append(ls, line{e.T, fmt.Sprintf("event %s %s %s", e.Kind, e.Inst, e.Msg)})
	}
	sort.SliceStable(ls, func(i, j int) bool {
		if ls[i].t != ls[j].t {
			return ls[i].t < ls[j].t
		}
		return ls[i].s < ls[j].s
	})
	out := make([]string, len(ls))
	for i, l := range ls {
		out[i] = fmt.Sprintf("%d %s", int64(l.t), l.s)
	}
	return out
}

// verboseBodies adds response bodies to the printed log (debugging aid; VERIF_VERBOSE=2).
var verboseBodies = os.Getenv("VERIF_VERBOSE") == "2"

// canonBody: the order of elements in the lists of an API response (ids in
// silencedBy / inhibitedBy / mutedBy, groups with equal labels and receiver,
// ...) is in places the iteration order of a Go map inside the repository; no
// listed property orders them, so the log hashes every JSON list as a multiset.
func canonBody(s string) string {
	if len(s) < 2 || (s[0] != '[' && s[0] != '{') {
		return s
	}
	var v any
	if err := json.Unmarshal([]byte(s), &v); err != nil {
		return s
	}
	return canonJSON(v)
}

func canonJSON(v any) string {
	switch x := v.(type) {
	case []any:
		parts := make([]string, len(x))
		for i, e := range x {
			parts[i] = canonJSON(e)
		}
		sort.Strings(parts)
		return "[" + strings.Join(parts, ",") + "]"
	case map[string]any:
		keys := make([]string, 0, len(x))
		for k := range x {
			keys = append(keys, k)
		}
		sort.Strings(keys)
		var b strings.Builder
		b.WriteByte('{')
		for _, k := range keys {
			b.WriteString(k)
			b.WriteByte(':')
			b.WriteString(canonJSON(x[k]))
			b.WriteByte(',')
		}
		b.WriteByte('}')
		return b.String()
	default:
		o, _ := json.Marshal(x)
		return string(o)
	}
}

func shortHash(s string) string {
	s = canonBody(s)
	x := sha256.Sum256([]byte(s))
	return hex.EncodeToString(x[:6])
}

// Hash is the hash of the canonical event log.
func (h *History) Hash() string {
	x := sha256.Sum256([]byte(strings.Join(h.Canon(), "\n")))
	return hex.EncodeToString(x[:12])
}

// Shape is an abstract trace: the sequence of event kinds, without times or
// contents; used to count distinct runs.
func (h *History) Shape() string {
	h.mu.Lock()
	defer h.mu.Unlock()
	type line struct {
		seq int
		s   string
	}
	var ls []line
	for _, n := range h.Notifs {
		f, r := 0, 0
		for _, a := range n.Alerts {
			if a.Status == "firing" {
				f++
			} else {
				r++
			}
		}
		ls = append(ls, line{n.Seq, fmt.Sprintf("N%s%d/%d", n.Outcome, f, r)})
	}
	for _, a := range h.API {
		p := a.Path
		if i := strings.IndexByte(p, '?'); i >= 0 {
			p = p[:i]
		}
		if strings.HasPrefix(p, "/api/v2/silence/") {
			p = "/api/v2/silence/ID"
		}
		if len(p) > 4 {
			p = p[len(p)-4:]
		}
		ls = append(ls, line{a.Seq, fmt.Sprintf("A%s%s%d", a.Method[:1], p, a.Code)})
	}
	sort.Slice(ls, func(i, j int) bool { return ls[i].seq < ls[j].seq })
	var b strings.Builder
	for _, l := range ls {
		b.WriteString(l.s)
		b.WriteByte(' ')
	}
	for _, e := range h.Events {
		if strings.HasPrefix(e.Kind, "fault") || e.Kind == "crash" || e.Kind == "restart" || e.Kind == "reload" {
			b.WriteString(e.Kind + " ")
		}
	}
	x := sha256.Sum256([]byte(b.String()))
	return hex.EncodeToString(x[:8])
}

func mustJSON(v any) string {
	b, err := json.Marshal(v)
	if err != nil {
		return "<" + err.Error() + ">"
	}
	return string(b)
}
