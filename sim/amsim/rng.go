package amsim

import (
	"hash/fnv"
	"time"
)

// Rng is a splitmix64 stream: the only source of generated choices. One seed
// decides the whole plan; run-time (lazy) decisions never draw from a stream,
// they are pure functions of content (see Hash64), so they are independent of
// the order in which goroutines happen to reach them.
type Rng struct{ s uint64 }

func NewRng(seed uint64) *Rng { return &Rng{s: seed*0x9e3779b97f4a7c15 + 0x1234567} }

func mix64(x uint64) uint64 {
	x += 0x9e3779b97f4a7c15
	x = (x ^ (x >> 30)) * 0xbf58476d1ce4e5b9
	x = (x ^ (x >> 27)) * 0x94d049bb133111eb
	return x ^ (x >> 31)
}

func (r *Rng) U64() uint64 {
	r.s += 0x9e3779b97f4a7c15
	z := r.s
	z = (z ^ (z >> 30)) * 0xbf58476d1ce4e5b9
	z = (z ^ (z >> 27)) * 0x94d049bb133111eb
	return z ^ (z >> 31)
}

// Intn returns a value in [0,n).
func (r *Rng) Intn(n int) int {
	if n <= 1 {
		return 0
	}
	return int(r.U64() % uint64(n))
}

// Range returns a value in [lo,hi].
func (r *Rng) Range(lo, hi int) int {
	if hi <= lo {
		return lo
	}
	return lo + r.Intn(hi-lo+1)
}

func (r *Rng) Bool(p float64) bool { return float64(r.U64()>>11)/(1<<53) < p }

// Dur returns a duration in [lo,hi], at millisecond granularity.
func (r *Rng) Dur(lo, hi time.Duration) time.Duration {
	if hi <= lo {
		return lo
	}
	ms := int64((hi - lo) / time.Millisecond)
	return lo + time.Duration(int64(r.U64()%uint64(ms+1)))*time.Millisecond
}

// Fork derives an independent stream (so that adding draws in one part of a
// generator does not shift the others).
func (r *Rng) Fork(tag string) *Rng {
	h := fnv.New64a()
	h.Write([]byte(tag))
	return &Rng{s: mix64(r.s ^ h.Sum64())}
}

func Pick[T any](r *Rng, xs []T) T { return xs[r.Intn(len(xs))] }

// Hash64 is the content-keyed decision function.
func Hash64(seed uint64, parts ...string) uint64 {
	h := fnv.New64a()
	for _, p := range parts {
		h.Write([]byte(p))
		h.Write([]byte{0xff})
	}
	return mix64(h.Sum64() ^ mix64(seed))
}
