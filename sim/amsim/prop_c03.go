package amsim

import (
	"fmt"
	"sort"
	"time"
)

// C03 — inhibition follows the documented existential rule, independent of arrival order.
//
// Oracle (state based, no history): at every GET /api/v2/alerts probe, for every
// returned alert t the reference verdict is computed from the very same response:
// t is inhibited iff some returned alert s whose end time is still in the future
// matches a rule's source matchers, t matches that rule's target matchers, s and t
// agree on every label of the rule's equal list (missing = empty), and it is not
// the case that t matches the source side and s matches the target side too. The
// API must report inhibited exactly then, naming one of the valid sources.
// Notifications: an alert that the probes before and after its flush window show
// inhibited by a source that fires throughout is never listed.

type c03Rule struct {
	Source, Target []M
	Equal          []string
}

func c03Valid(rules []Inhibit, t *APIAlert, all []APIAlert, now time.Time, margin time.Duration) (fps []string) {
	for _, r := range rules {
		if !matchAll(r.Target, t.Labels) {
			continue
		}
		tBoth := matchAll(r.Source, t.Labels)
		for i := range all {
			s := &all[i]
			if !s.EndsAt.After(now.Add(margin)) {
				continue
			}
			if !matchAll(r.Source, s.Labels) {
				continue
			}
			eq := true
			for _, e := range r.Equal {
				if s.Labels[e] != t.Labels[e] {
					eq = false
				}
			}
			if !eq {
				continue
			}
			if tBoth && matchAll(r.Target, s.Labels) {
				continue
			}
			fps = append(fps, s.Fingerprint)
		}
	}
	sort.Strings(fps)
	return fps
}

func c03Gen(seed uint64, tier string) *Plan {
	rng := NewRng(seed)
	start := BubbleEpoch.Add(5*24*time.Hour + Dur(rng.Intn(86400*300))*time.Second)
	p := &Plan{Prop: "C03", Family: "single", Seed: seed, Start: start}
	cfg := &Config{ResolveTimeout: rng.Dur(time.Minute, 5*time.Minute),
		Route:     &Route{Receiver: "r0", GroupBy: Pick(rng, [][]string{{"alertname"}, {"..."}, {"job"}}), GroupBySet: true, GroupWait: rng.Dur(0, 15*time.Second), GroupWaitSet: true, GroupInterval: rng.Dur(10*time.Second, time.Minute), RepeatInterval: rng.Dur(2*time.Minute, 20*time.Minute)},
		Receivers: []Receiver{{Name: "r0", Webhooks: []Webhook{{SendResolved: rng.Bool(0.5)}}}}}
	srcPool := [][]M{{{"severity", "=", "critical"}}, {{"alertname", "=", "A"}}, {{"alertname", "=~", "A|B"}}, {{"cluster", "=", "c1"}}, {{"severity", "=", "critical"}, {"job", "=", "j1"}}, {{"cluster", "!=", "c2"}}}
	tgtPool := [][]M{{{"severity", "=", "warning"}}, {{"alertname", "=~", "A|B"}}, {{"job", "=", "j1"}}, {{"alertname", "!=", "C"}}, {{"severity", "=~", "warn.*|crit.*"}}, {{"cluster", "=~", "c1|c2"}}}
	eqPool := [][]string{nil, {"job"}, {"cluster"}, {"job", "cluster"}, {"alertname"}, {"instance"}}
	for n := rng.Range(1, 3); n > 0; n-- {
		cfg.Inhibits = append(cfg.Inhibits, Inhibit{Source: Pick(rng, srcPool), Target: Pick(rng, tgtPool), Equal: Pick(rng, eqPool)})
	}
	p.Configs = []*Config{cfg, {Raw: "route: [broken"}}
	p.Insts = []InstPlan{{Name: "a"}}
	p.Opts = InstOpts{AlertGCInterval: rng.Dur(20*time.Second, 6*time.Minute) + 29, DispatchMaintenance: 30*time.Second + 7, MaintenanceInterval: 15*time.Minute + 13}
	sets := genLabelSets(rng.Fork("sets"), rng.Range(4, 9))
	p.LabelSets = sets
	horizon := rng.Dur(20*time.Minute, 70*time.Minute)
	if tier == "thorough" {
		horizon = rng.Dur(30*time.Minute, 3*time.Hour)
	}
	p.Horizon = horizon
	b := &planBuilder{p: p, used: map[Dur]bool{}}
	ends := []Dur{30 * time.Second, 2 * time.Minute, 6 * time.Minute, 17 * time.Minute, 40 * time.Minute}
	for _, ls := range sets {
		t := rng.Dur(time.Second, horizon/3)
		for n := rng.Range(1, 10); n > 0 && t < horizon-10*time.Second; n-- {
			a := PAlert{Labels: ls}
			switch rng.Intn(8) {
			case 0, 1: // time-out mode
			case 2: // explicit resolve
				z := -Dur(rng.Intn(3)) * time.Second
				a.EndOff = &z
			default: // explicit end, lengths unordered between refreshes
				e := Pick(rng, ends) + rng.Dur(0, 30*time.Second)
				a.EndOff = &e
			}
			at := b.add(Action{At: t, Kind: "post", Alerts: []PAlert{a}})
			b.add(Action{At: at + time.Millisecond, Kind: "get_alerts", Str: "after-post"})
			t = at + Pick(rng, []Dur{2 * time.Millisecond, time.Second, 20 * time.Second, 2 * time.Minute, 7 * time.Minute, 16 * time.Minute}) + rng.Dur(0, 20*time.Second)
		}
	}
	for n := rng.Range(15, 60); n > 0; n-- {
		b.add(Action{At: rng.Dur(time.Second, horizon-time.Second), Kind: "get_alerts"})
	}
	// Index-race mode: a rule of its own (source SRC, target TGT, equal job); source S1
	// resolves before the inhibitor's cache GC (every 15 minutes from its start), a
	// second source S2 with the same equal-label value arrives 1.5 s before that GC
	// and the inhibitor's goroutine is suspended for 1 s before each of its index
	// critical sections while it files S2: the GC removes S1 (the last member of the
	// index entry) in between. Afterwards the target must be inhibited by S2.
	race := horizon > 17*time.Minute && rng.Fork("race").Bool(0.25)
	gcT := 15 * time.Minute
	if race {
		rr := rng.Fork("race2")
		cfg.Inhibits = append(cfg.Inhibits, Inhibit{Source: []M{{"alertname", "=", "SRC"}}, Target: []M{{"alertname", "=", "TGT"}}, Equal: []string{"job"}})
		s1 := map[string]string{"alertname": "SRC", "job": "jx", "instance": "i1"}
		s2 := map[string]string{"alertname": "SRC", "job": "jx", "instance": "i2"}
		tg := map[string]string{"alertname": "TGT", "job": "jx"}
		long := 40 * time.Minute
		zero := Dur(0)
		t1 := gcT - rr.Dur(3*time.Minute, 6*time.Minute)
		for _, x := range []Action{
			{At: t1, Kind: "post", Alerts: []PAlert{{Labels: s1, EndOff: &long}}},
			{At: t1 + rr.Dur(time.Second, 20*time.Second), Kind: "post", Alerts: []PAlert{{Labels: tg, EndOff: &long}}},
			{At: gcT - rr.Dur(40*time.Second, 90*time.Second), Kind: "post", Alerts: []PAlert{{Labels: s1, EndOff: &zero}}},
			{At: gcT - 1500*time.Millisecond, Kind: "post", Alerts: []PAlert{{Labels: s2, EndOff: &long}}, Str: "race"},
		} {
			at := b.add(x)
			if x.Str != "race" {
				b.add(Action{At: at + time.Millisecond, Kind: "get_alerts", Str: "after-post"})
			}
		}
		for _, d := range []Dur{3 * time.Second, 10 * time.Second, 40 * time.Second} {
			b.add(Action{At: gcT + d, Kind: "get_alerts"})
		}
		p.Holds = append(p.Holds, Hold{Site: "auto.lock", Match: "inhibit.index.Add", Nth: -1, From: gcT - 1600*time.Millisecond, To: gcT + 600*time.Millisecond, Delay: time.Second + 5})
		p.LabelSets = append(p.LabelSets, s1, s2, tg)
	}
	if rng.Bool(0.25) {
		rat := rng.Dur(time.Minute, horizon-time.Minute)
		if race && rat < gcT+time.Minute {
			rat = gcT + rng.Dur(time.Minute, 2*time.Minute) // a reload restarts the inhibitor and with it the GC ticker
		}
		at := b.add(Action{At: rat, Kind: "reload", Cfg: Pick(rng, []int{0, 0, 1})})
		// the inhibitor built by the reload loads the alerts that already exist; in
		// half of these runs its goroutine is slowed down while it does (a suspension
		// before every insert into a rule's source cache), and the API is asked right
		// after the reload returned: inhibition must be in force again by then
		b.add(Action{At: at + time.Millisecond, Kind: "get_alerts"})
		b.add(Action{At: at + 40*time.Millisecond, Kind: "get_alerts"})
		if rng.Bool(0.5) {
			p.Holds = append(p.Holds, Hold{Site: "auto.lock", Match: "store.Alerts.Set", Nth: -1, From: at, To: at + 3*time.Second, Delay: rng.Dur(20*time.Millisecond, 200*time.Millisecond) + 5})
			// nothing is submitted while the window is open: the running inhibitor
			// follows submissions through the same function, and the oracle reads
			// the API 1 ms after a submission
			kept := p.Actions[:0]
			for _, a := range p.Actions {
				if a.Kind == "post" && a.At >= at-100*time.Millisecond && a.At < at+3200*time.Millisecond {
					continue
				}
				kept = append(kept, a)
			}
			p.Actions = kept
		}
	}
	p.SortActions()
	return p
}

func c03Check(p *Plan, r *RunResult) *Verdict {
	v := &Verdict{}
	rules := p.Configs[0].Inhibits
	type probe struct {
		T      Dur
		Alerts []APIAlert
		Inhib  map[string][]string // label key -> valid source fingerprints (strict)
		SrcEnd map[string]time.Time
	}
	var probes []probe
	var changes []Dur // instants at which the alert set may change
	for _, rec := range r.H.API {
		if rec.Action < 0 {
			continue
		}
		a := &p.Actions[rec.Action]
		if a.Kind == "post" || a.Kind == "reload" {
			changes = append(changes, rec.T)
		}
		if a.Kind != "get_alerts" || rec.Code != 200 {
			continue
		}
		held := false
		for _, e := range r.H.Events {
			if e.Kind == "auto-hold" {
				var name string
				var d int64
				fmt.Sscanf(e.Msg, "%s %d", &name, &d)
				if rec.T >= e.T-time.Millisecond && rec.T <= e.T+Dur(d)+5*time.Millisecond {
					held = true
				}
			}
		}
		if held {
			continue // the inhibitor's goroutine was suspended by the simulator: it lags behind the submissions
		}
		var got []APIAlert
		if jsonUnmarshal(rec.Resp, &got) != nil {
			continue
		}
		now := p.Start.Add(rec.T)
		pr := probe{T: rec.T, Alerts: got, Inhib: map[string][]string{}, SrcEnd: map[string]time.Time{}}
		for i := range got {
			pr.SrcEnd[got[i].Fingerprint] = got[i].EndsAt
		}
		for i := range got {
			t := &got[i]
			if !t.EndsAt.After(now) {
				continue // listed on the very instant of its end
			}
			strict := c03Valid(rules, t, got, now, 2*time.Millisecond)
			loose := c03Valid(rules, t, got, now, -2*time.Millisecond)
			pr.Inhib[labelsKey(t.Labels)] = strict
			if (len(strict) > 0) != (len(loose) > 0) {
				continue // a source ends within 2 ms of the probe
			}
			v.Ob("api-inhibition-status-equals-existential-rule")
			rep := t.Status.InhibitedBy
			lk := labelsKey(t.Labels)
			switch {
			case len(loose) > 0 && len(rep) == 0:
				v.Fail("C03", "C03/target-not-inhibited-although-source-fires", rec.T, "at %v alert %s is reported not inhibited, but %d firing alert(s) match a rule's source side with equal labels (e.g. fingerprint %s); rules: %s", rec.T, lk, len(loose), loose[0], rulesText(rules))
			case len(loose) == 0 && len(rep) > 0:
				v.Fail("C03", "C03/inhibited-without-firing-source", rec.T, "at %v alert %s is reported inhibited by %v, but no returned firing alert qualifies as its source; rules: %s", rec.T, lk, rep, rulesText(rules))
			case len(rep) > 0:
				okfp := false
				for _, f := range rep {
					for _, x := range loose {
						if x == f {
							okfp = true
						}
					}
				}
				if !okfp {
					v.Fail("C03", "C03/inhibitedBy-names-invalid-source", rec.T, "at %v alert %s is reported inhibited by %v, valid sources are %v", rec.T, lk, rep, loose)
				}
				if t.Status.State != "suppressed" {
					v.Fail("C03", "C03/inhibited-alert-not-suppressed", rec.T, "alert %s has inhibitedBy %v but state %s", lk, rep, t.Status.State)
				}
			}
		}
		probes = append(probes, pr)
	}
	// notifications never list an inhibited alert
	gi := p.Configs[0].Route.GroupInterval
	win := flushTimeout(gi) + c01Slack
	for _, n := range r.H.Notifs {
		var p1, p2 *probe
		for i := range probes {
			if probes[i].T <= n.T-win {
				p1 = &probes[i]
			}
			if probes[i].T >= n.T && p2 == nil {
				p2 = &probes[i]
			}
		}
		if p1 == nil || p2 == nil {
			continue
		}
		quiet := true
		for _, c := range changes {
			if c >= p1.T && c <= p2.T {
				quiet = false
			}
		}
		if !quiet {
			continue
		}
		for _, a := range n.Alerts {
			if a.Status != "firing" {
				continue
			}
			s1, s2 := p1.Inhib[a.LKey], p2.Inhib[a.LKey]
			if len(s1) == 0 || len(s2) == 0 {
				continue
			}
			// some source valid at both probes and firing beyond the second
			common := false
			for _, f := range s1 {
				for _, g := range s2 {
					if f == g && p2.SrcEnd[f].After(p.Start.Add(p2.T)) {
						common = true
					}
				}
			}
			if !common {
				continue
			}
			v.Ob("inhibited-alert-not-notified")
			v.Fail("C03", "C03/inhibited-alert-notified", n.T, "notification at %v lists %s as firing; the probes at %v and %v (no alert update in between) both show it inhibited by a source that keeps firing", n.T, a.LKey, p1.T, p2.T)
		}
		v.Ob("notification-checked-against-inhibition")
	}
	return v
}

func rulesText(rs []Inhibit) string {
	s := ""
	for _, r := range rs {
		s += fmt.Sprintf("[source %v target %v equal %v] ", r.Source, r.Target, r.Equal)
	}
	return s
}

func init() {
	Register(&Prop{
		ID: "C03", Level: "exploration", Gen: c03Gen, Check: c03Check,
		Rule:        "seeded run with 1-3 inhibit rules (source/target matcher sets drawn from pools that overlap, equal lists of 0-2 labels incl. one no alert carries), 4-9 label sets sharing equal-label values, per label set up to 10 submissions in time-out mode, with explicit ends of unordered lengths (30 s-40 min) or explicit resolves, spaced 2 ms-16 min, provider GC every 20 s-6 min and the inhibitor's own 15-minute cache GC inside the 20-70 min (thorough up to 3 h) horizon, optional valid/rejected reload; a GET /api/v2/alerts after every POST and 15-60 more at random instants. Non-trivial: at least one alert's reported inhibition was compared with the rule; distinct by abstract trace.",
		Real:        []string{"app.New wiring + reloader", "api/v2 (status prediction)", "provider/mem", "inhibit (rules, source cache, equal-label index, GC)", "dispatch + notify pipeline (inhibit mute stage)"},
		Stub:        []string{"clock (synctest)", "client (in-memory HTTP)", "receiver endpoint"},
		Assumptions: []string{"the reference verdict is computed from the alerts the same GET returns (their labels and end times)", "probes at which a source's end time lies within 2 ms are not judged for the alerts it affects"},
	})
}
