package amsim

import (
	"bytes"
	"context"
	"fmt"
	"io"
	"log/slog"
	"sort"
	"strings"
	"time"

	"github.com/prometheus/client_golang/prometheus"
	"google.golang.org/protobuf/encoding/protodelim"
	"google.golang.org/protobuf/types/known/timestamppb"

	"github.com/prometheus/alertmanager/nflog"
	npb "github.com/prometheus/alertmanager/nflog/nflogpb"
	"github.com/prometheus/alertmanager/silence"
	pb "github.com/prometheus/alertmanager/silence/silencepb"

	"verif/sim/simfs"
)

// C11 — silences and notification log survive crashes: snapshots are atomic and lossless.
//
// Fault enumeration. One real instance on the simulated disk: content phase 1, a
// completed maintenance snapshot (state S1), content phase 2 (state S2), then the
// next snapshot (maintenance tick or shutdown) during which the process is killed
// before file-system operation k, for every k, with every power-loss outcome
// (unsynced data lost / kept / torn). The instance is restarted on the surviving
// disk: it must start, and silences and notification log must each equal S1 or S2.
// Loader: every prefix of the snapshot files and random corruptions are fed to
// silence.New / nflog.New.

type c11Snap struct {
	Sils map[string]string // id -> canonical content
	Nf   map[string]string // key -> canonical content
}

func canonSil(s *pb.Silence) string {
	d := dumpOf(s)
	return fmt.Sprintf("%v|%v|%v|%v|%s|%s|%v", d.Sets, d.Start.UnixNano(), d.End.UnixNano(), d.Updated.UnixNano(), s.Comment, s.CreatedBy, sortedMap(s.Annotations))
}

func sortedMap(m map[string]string) string {
	ks := sortedKeys(m)
	var b strings.Builder
	for _, k := range ks {
		b.WriteString(k + "=" + m[k] + ";")
	}
	return b.String()
}

func (w *World) c11Capture(i int) *c11Snap {
	in := w.Insts[i]
	sn := &c11Snap{Sils: map[string]string{}, Nf: map[string]string{}}
	if in.App == nil {
		return sn
	}
	sils, _, _ := in.Int.Silences.Query(context.Background())
	for _, s := range sils {
		sn.Sils[s.Id] = canonSil(s)
	}
	if raw, err := in.Int.Nflog.MarshalBinary(); err == nil {
		if ms, err := decodeEntries(raw); err == nil {
			for _, m := range ms {
				k, e := fromMesh(m)
				sn.Nf[k] = fmt.Sprintf("%v|%v|%v|%v|%v", e.TS.UnixNano(), e.Firing, e.Resolved, sortedMap(e.Data), m.ExpiresAt.AsTime().UnixNano())
			}
		}
	}
	return sn
}

func sameMap(a, b map[string]string) bool {
	if len(a) != len(b) {
		return false
	}
	for k, v := range a {
		if b[k] != v {
			return false
		}
	}
	return true
}

func diffMap(got, want map[string]string) string {
	miss, extra, chg := 0, 0, 0
	for k, v := range want {
		if g, ok := got[k]; !ok {
			miss++
		} else if g != v {
			chg++
		}
	}
	for k := range got {
		if _, ok := want[k]; !ok {
			extra++
		}
	}
	return fmt.Sprintf("%d missing, %d extra, %d changed of %d", miss, extra, chg, len(want))
}

type c11State struct {
	S1, S2, S3 *c11Snap
	armedK     int
	K0         int
}

func c11st(w *World) *c11State {
	if w.Scratch == nil {
		w.Scratch = map[string]any{}
	}
	st, _ := w.Scratch["c11"].(*c11State)
	if st == nil {
		st = &c11State{}
		w.Scratch["c11"] = st
	}
	return st
}

// c11Content loads records number [from,to) of the run's content into the stores.
func (w *World) c11Content(i int, from, to int, edit bool) {
	in := w.Insts[i]
	if in.App == nil {
		return
	}
	now := time.Now()
	var sil []*pb.MeshSilence
	var ent []*npb.MeshEntry
	for k := from; k < to; k++ {
		r := NewRng(w.Plan.Seed*7919 + uint64(k))
		id := fmt.Sprintf("%08x-2222-4000-8000-%012x", uint32(k), uint64(k))
		nsets := r.Range(1, 3)
		var sets [][]M
		for s := 0; s < nsets; s++ {
			sets = append(sets, Pick(r, c02MatcherSets))
		}
		upd := now.Add(-r.Dur(time.Second, time.Hour))
		if edit {
			upd = now
		}
		s := &pb.Silence{Id: id, MatcherSets: pbSets(sets), StartsAt: timestamppb.New(now.Add(-r.Dur(0, 2*time.Hour))), EndsAt: timestamppb.New(now.Add(r.Dur(24*time.Hour, 48*time.Hour))), UpdatedAt: timestamppb.New(upd),
			Comment: strings.Repeat("c", r.Range(0, 80)) + fmt.Sprint(k, edit), CreatedBy: "u" + fmt.Sprint(k%7)}
		if r.Bool(0.3) {
			s.Annotations = map[string]string{"ticket": fmt.Sprint(k), "why": "maintenance"}
		}
		if r.Bool(0.15) {
			// an already ended but retained silence
			s.EndsAt = timestamppb.New(now.Add(-r.Dur(time.Minute, time.Hour)))
			s.StartsAt = timestamppb.New(s.EndsAt.AsTime().Add(-time.Hour))
		}
		exp := s.EndsAt.AsTime().Add(w.retention())
		gcFrom, gcTo := Dur(pInt64(w.Plan, "gc_from")), Dur(pInt64(w.Plan, "gc_to"))
		if gcTo > gcFrom && !edit && r.Bool(0.12) {
			// an ended silence whose retention runs out while the restarted instance is
			// up: its first own maintenance run collects it, then writes its snapshot
			s.EndsAt = timestamppb.New(now.Add(-r.Dur(time.Minute, time.Hour)))
			s.StartsAt = timestamppb.New(s.EndsAt.AsTime().Add(-time.Hour))
			exp = w.Plan.Start.Add(gcFrom + r.Dur(0, gcTo-gcFrom))
		}
		sil = append(sil, &pb.MeshSilence{Silence: s, ExpiresAt: timestamppb.New(exp)})
		e := &npb.Entry{GroupKey: []byte(fmt.Sprintf("{}:{g=\"%d\"}", k/2)), Receiver: &npb.Receiver{GroupName: "r0", Integration: "webhook", Idx: uint32(k % 2)},
			Timestamp: timestamppb.New(upd), FiringAlerts: []uint64{uint64(k), uint64(k) * 31}, ResolvedAlerts: []uint64{uint64(k) + 5}}
		if r.Bool(0.5) {
			e.ReceiverData = map[string]*npb.ReceiverDataValue{"n": dataValue(fmt.Sprintf("i:%d", k)), "f": dataValue("f:1.25"), "s": dataValue("s:thread-" + fmt.Sprint(k))}
		}
		eexp := now.Add(r.Dur(24*time.Hour, 72*time.Hour))
		if gcTo > gcFrom && !edit && r.Bool(0.12) {
			eexp = w.Plan.Start.Add(gcFrom + r.Dur(0, gcTo-gcFrom)) // likewise for a log entry
		}
		ent = append(ent, &npb.MeshEntry{Entry: e, ExpiresAt: timestamppb.New(eexp)})
	}
	if len(sil) > 0 {
		in.Int.Silences.Merge(marshalMeshFull(sil...))
		in.Int.Nflog.Merge(marshalEntries(ent...))
	}
}

// marshalMeshFull keeps annotations (marshalMesh/cloneSil drop them).
func marshalMeshFull(ms ...*pb.MeshSilence) []byte {
	var buf bytes.Buffer
	for _, m := range ms {
		if len(m.Silence.MatcherSets) > 0 {
			m.Silence.Matchers = m.Silence.MatcherSets[0].Matchers
		}
		protodelim.MarshalTo(&buf, m)
	}
	return buf.Bytes()
}

func init() {
	RegisterAction("c11_content", func(w *World, idx int, a *Action) {
		w.c11Content(0, a.N, a.N+int(a.D), a.Str == "edit")
	})
	RegisterAction("c11_capture", func(w *World, idx int, a *Action) {
		st := c11st(w)
		sn := w.c11Capture(0)
		switch a.Str {
		case "S1":
			st.S1 = sn
		case "S3":
			st.S3 = sn
		default:
			st.S2 = sn
		}
	})
	// c11_second_restart: after the restarted instance completed a snapshot of its
	// own (S3), it is killed and started once more: what the first crash left on
	// the disk (temporary files, a half-written snapshot) must not leak into a
	// later snapshot.
	RegisterAction("c11_second_restart", func(w *World, idx int, a *Action) {
		st := c11st(w)
		in := w.Insts[0]
		if in.App == nil || st.S3 == nil {
			return
		}
		w.CrashInst(0, func(path string) int { return 1 })
		w.H.AddEvent("c11-second-kill", in.Name, "")
		w.Online.Ob("second-restart-succeeds")
		if err := w.StartInst(0); err != nil {
			w.Online.Fail("C11", "C11/refuses-to-start-on-own-files:second-generation", w.H.now(), "after the crash (before operation %d), a restart, one completed snapshot and a kill, the instance does not start: %v", st.armedK, err)
			return
		}
		w.probeMutes("C11", 0, "after the second restart")
		got := w.c11Capture(0)
		for _, x := range []struct {
			name    string
			got, s3 map[string]string
		}{{"silences", got.Sils, st.S3.Sils}, {"notification log", got.Nf, st.S3.Nf}} {
			w.Online.Ob("second-generation-snapshot-is-what-was-captured")
			if !sameMap(x.got, x.s3) {
				w.Online.Fail("C11", "C11/second-generation-snapshot-differs:"+strings.ReplaceAll(x.name, " ", "-"), w.H.now(), "crash before operation %d, restart, one completed maintenance snapshot, kill, restart: the instance holds %d %s records, the state captured after that snapshot had %d: %s",
					st.armedK, len(x.got), x.name, len(x.s3), diffMap(x.got, x.s3))
			}
		}
	})
	// c11_arm: the process dies before mutating file-system operation number k of
	// what follows (the next snapshots).
	RegisterAction("c11_arm", func(w *World, idx int, a *Action) {
		st := c11st(w)
		in := w.Insts[0]
		st.K0 = simfs.MutOps(in.DataDir)
		st.armedK = a.N
		kind := "crash"
		if a.Str != "" {
			kind = a.Str
		}
		simfs.SetFaults([]simfs.Fault{{Prefix: in.DataDir, At: st.K0 + a.N, Kind: kind}}, nil)
	})
	RegisterAction("c11_crash_restart", func(w *World, idx int, a *Action) {
		st := c11st(w)
		in := w.Insts[0]
		if in.App == nil || st.S1 == nil || st.S2 == nil {
			return
		}
		if a.Str == "shutdown" {
			// graceful stop: the shutdown snapshots run (and die at operation k)
			_ = in.App.Stop(context.Background())
		}
		ops := simfs.MutOps(in.DataDir) - st.K0
		fired := simfs.Fired()["crash"] > 0
		outcome := a.N
		if a.Str == "disk-error" {
			fired = simfs.Fired()["enospc"]+simfs.Fired()["eio"]+simfs.Fired()["short"] > 0
			outcome = 1 // a kill: everything written survives
			if fired {
				w.H.Probe("disk-error-inside-snapshot")
			}
		}
		w.CrashInst(0, func(path string) int { return outcome })
		w.H.AddEvent("c11-crash", in.Name, fmt.Sprintf("armed_k=%d ops_seen=%d fired=%v outcome=%d files=%d", st.armedK, ops, fired, outcome, len(simfs.Files(in.DataDir))))
		if fired && a.Str != "disk-error" {
			w.H.Probe("crashed-inside-snapshot")
		} else {
			w.H.Probe("crashed-after-snapshot-completed")
		}
		for f := range simfs.Files(in.DataDir) {
			if !strings.HasSuffix(f, "/silences") && !strings.HasSuffix(f, "/nflog") {
				w.H.Probe("temp-file-left-behind")
			}
		}
		simfs.SetFaults(nil, nil)
		if err := w.StartInst(0); err != nil {
			w.Online.Ob("restart-succeeds")
			w.Online.Fail("C11", "C11/refuses-to-start-on-own-files", w.H.now(), "after a crash before file-system operation %d of the snapshot (power-loss outcome %d) the instance does not start: %v", st.armedK, outcome, err)
			return
		}
		w.Online.Ob("restart-succeeds")
		// "silences keep muting": the restarted instance's mute verdicts equal a direct
		// evaluation of the silences it loaded
		w.probeMutes("C11", 0, "after the restart")
		got := w.c11Capture(0)
		for _, x := range []struct {
			name        string
			got, s1, s2 map[string]string
		}{{"silences", got.Sils, st.S1.Sils, st.S2.Sils}, {"notification log", got.Nf, st.S1.Nf, st.S2.Nf}} {
			w.Online.Ob("loaded-state-is-last-completed-or-in-progress-snapshot")
			if sameMap(x.got, x.s2) {
				w.H.Probe("loaded:" + x.name + ":new")
				continue
			}
			if sameMap(x.got, x.s1) {
				w.H.Probe("loaded:" + x.name + ":old")
				continue
			}
			sig := "C11/loaded-state-is-neither-snapshot"
			if len(x.got) == 0 {
				sig = "C11/state-lost"
			}
			w.Online.Fail("C11", sig+":"+strings.ReplaceAll(x.name, " ", "-"), w.H.now(), "crash before file-system operation %d (fired=%v) with power-loss outcome %d (%s snapshot): the restarted instance holds %d %s records; versus the last completed snapshot: %s; versus the one in progress: %s",
				st.armedK, fired, outcome, a.Str, len(x.got), x.name, diffMap(x.got, x.s1), diffMap(x.got, x.s2))
		}
	})
	RegisterAction("c11_loader", func(w *World, idx int, a *Action) { w.c11Loader() })
}

func quietLogger() *slog.Logger {
	return slog.New(slog.NewTextHandler(io.Discard, &slog.HandlerOptions{Level: slog.LevelError + 4}))
}

// c11Loader feeds prefixes and corruptions of the current snapshot files to the loaders.
func (w *World) c11Loader() {
	in := w.Insts[0]
	if in.App == nil {
		return
	}
	sn := w.c11Capture(0)
	rng := NewRng(w.Plan.Seed ^ 0x10ad)
	// silences
	if raw, err := in.Int.Silences.MarshalBinary(); err == nil && len(raw) > 0 {
		lens := prefixLens(len(raw), rng)
		for _, n := range lens {
			s, err := silence.New(silence.Options{SnapshotReader: bytes.NewReader(raw[:n]), Retention: w.retention(), Metrics: prometheus.NewRegistry(), Logger: quietLogger()})
			w.Online.Ob("loader-prefix")
			if err != nil {
				continue
			}
			sils, _, _ := s.Query(context.Background())
			for _, x := range sils {
				if want, ok := sn.Sils[x.Id]; !ok || want != canonSil(x) {
					w.Online.Fail("C11", "C11/loader-fabricated-silence-from-prefix", w.H.now(), "loading the first %d of %d bytes of a silence snapshot succeeded and yields a record %s that is not an original one", n, len(raw), x.Id)
					return
				}
			}
			if n == len(raw) && len(sils) != len(sn.Sils) {
				w.Online.Fail("C11", "C11/round-trip-loses-silences", w.H.now(), "snapshot -> load yields %d of %d silences", len(sils), len(sn.Sils))
			}
		}
		for c := 0; c < 24; c++ {
			b := append([]byte(nil), raw...)
			for f := rng.Range(1, 3); f > 0; f-- {
				b[rng.Intn(len(b))] ^= byte(1 << rng.Intn(8))
			}
			func() {
				defer func() {
					if r := recover(); r != nil {
						w.Online.Fail("C11", "C11/loader-panics-on-corruption", w.H.now(), "silence loader panicked on a corrupted snapshot: %v", r)
					}
				}()
				silence.New(silence.Options{SnapshotReader: bytes.NewReader(b), Retention: w.retention(), Metrics: prometheus.NewRegistry(), Logger: quietLogger()})
				w.Online.Ob("loader-corruption")
			}()
		}
	}
	if raw, err := in.Int.Nflog.MarshalBinary(); err == nil && len(raw) > 0 {
		for _, n := range prefixLens(len(raw), rng) {
			l, err := nflog.New(nflog.Options{SnapshotReader: bytes.NewReader(raw[:n]), Retention: w.retention(), Metrics: prometheus.NewRegistry(), Logger: quietLogger()})
			w.Online.Ob("loader-prefix")
			if err != nil {
				continue
			}
			b, _ := l.MarshalBinary()
			ms, _ := decodeEntries(b)
			for _, m := range ms {
				k, e := fromMesh(m)
				got := fmt.Sprintf("%v|%v|%v|%v|%v", e.TS.UnixNano(), e.Firing, e.Resolved, sortedMap(e.Data), m.ExpiresAt.AsTime().UnixNano())
				if want, ok := sn.Nf[k]; !ok || want != got {
					w.Online.Fail("C11", "C11/loader-fabricated-entry-from-prefix", w.H.now(), "loading the first %d of %d bytes of a notification-log snapshot succeeded and yields an entry for %s that is not an original one", n, len(raw), k)
					return
				}
			}
			if n == len(raw) && len(ms) != len(sn.Nf) {
				w.Online.Fail("C11", "C11/round-trip-loses-entries", w.H.now(), "snapshot -> load yields %d of %d entries", len(ms), len(sn.Nf))
			}
		}
		for c := 0; c < 24; c++ {
			b := append([]byte(nil), raw...)
			for f := rng.Range(1, 3); f > 0; f-- {
				b[rng.Intn(len(b))] ^= byte(1 << rng.Intn(8))
			}
			func() {
				defer func() {
					if r := recover(); r != nil {
						w.Online.Fail("C11", "C11/loader-panics-on-corruption", w.H.now(), "notification-log loader panicked on a corrupted snapshot: %v", r)
					}
				}()
				nflog.New(nflog.Options{SnapshotReader: bytes.NewReader(b), Retention: w.retention(), Metrics: prometheus.NewRegistry(), Logger: quietLogger()})
				w.Online.Ob("loader-corruption")
			}()
		}
	}
}

func prefixLens(n int, rng *Rng) []int {
	var out []int
	if n <= 4096 {
		for i := 0; i <= n; i++ {
			out = append(out, i)
		}
		return out
	}
	seen := map[int]bool{0: true, n: true}
	out = append(out, 0, n)
	for len(out) < 600 {
		x := rng.Intn(n)
		if !seen[x] {
			seen[x] = true
			out = append(out, x)
		}
	}
	sort.Ints(out)
	return out
}

const c11Points = 14 // crash points tried per content: k = 0..13 (a snapshot pair has about 10 mutating operations)

func c11Gen(seed uint64, tier string) *Plan {
	// seed -> (content, variant, crash point k, power-loss outcome)
	per := uint64(c11Points * 3 * 3)
	content := seed / per
	rest := seed % per
	variant := "maintenance"
	if rest >= uint64(c11Points*3*2) {
		// a disk error (full disk, I/O error, short write) at operation k of a
		// maintenance snapshot, then the process is killed before the next snapshot
		variant = "disk-error"
		rest -= uint64(c11Points * 3 * 2)
	} else if rest >= uint64(c11Points*3) {
		variant = "shutdown"
		rest -= uint64(c11Points * 3)
	}
	k := int(rest / 3)
	outcome := int(rest % 3)
	rng := NewRng(content*104729 + 17)
	start := BubbleEpoch.Add(60*24*time.Hour + Dur(rng.Intn(86400*300))*time.Second)
	p := &Plan{Prop: "C11", Family: "crash", Seed: content, Start: start}
	cfg := &Config{Route: &Route{Receiver: "r0"}, Receivers: []Receiver{{Name: "r0", Webhooks: []Webhook{{SendResolved: true}}}}}
	p.Configs = []*Config{cfg}
	p.Insts = []InstPlan{{Name: "a"}}
	p.LabelSets = genLabelSets(rng.Fork("sets"), 6)
	maint := rng.Dur(40*time.Second, 3*time.Minute) + 13
	p.Opts = InstOpts{Retention: 200 * time.Hour, MaintenanceInterval: maint, AlertGCInterval: 30*time.Minute + 29, DispatchMaintenance: 30*time.Second + 7}
	sizes := []int{0, 1, 2, 5, 20, 60}
	if tier == "thorough" {
		sizes = append(sizes, 300, 1500, 3000)
	}
	n1 := Pick(rng, sizes)
	n2 := Pick(rng, sizes)
	b := &planBuilder{p: p, used: map[Dur]bool{}}
	b.add(Action{At: 5 * time.Second, Kind: "c11_content", N: 0, D: Dur(n1)})
	b.add(Action{At: maint + time.Second, Kind: "c11_capture", Str: "S1"})
	// phase 2: new records and new versions of some old ones
	b.add(Action{At: maint + 2*time.Second, Kind: "c11_content", N: n1, D: Dur(n2)})
	if n1 > 0 && rng.Bool(0.6) {
		b.add(Action{At: maint + 3*time.Second, Kind: "c11_content", N: 0, D: Dur(min(n1, 3)), Str: "edit"})
	}
	if rng.Bool(0.5) {
		b.add(Action{At: maint + 4*time.Second, Kind: "silence", Sil: &PSilence{Key: "api", Matchers: []M{{"alertname", "=", "A"}}, EndOff: time.Hour}})
	}
	if rng.Bool(0.2) {
		b.add(Action{At: maint + 5*time.Second, Kind: "c11_loader"})
	}
	var at Dur
	if variant == "maintenance" || variant == "disk-error" {
		at = 2*maint - time.Second
	} else {
		at = maint + rng.Dur(10*time.Second, maint-10*time.Second)
	}
	b.add(Action{At: at - time.Millisecond, Kind: "c11_capture", Str: "S2"})
	arm := Action{At: at, Kind: "c11_arm", N: k}
	if variant == "disk-error" {
		arm.Str = []string{"enospc", "eio", "short"}[outcome]
	}
	b.add(arm)
	crashAt := at + 2*time.Second
	if variant == "shutdown" {
		crashAt = at + time.Millisecond
	}
	b.add(Action{At: crashAt, Kind: "c11_crash_restart", N: outcome, Str: variant})
	// second generation: the restarted instance's first own maintenance snapshot
	// (one interval after its start), then a kill and another start
	b.add(Action{At: crashAt + maint + 6*time.Second, Kind: "c11_capture", Str: "S3"})
	b.add(Action{At: crashAt + maint + 7*time.Second, Kind: "c11_second_restart"})
	p.Horizon = crashAt + maint + 12*time.Second
	p.SortActions()
	p.Params = map[string]any{"case_key": fmt.Sprintf("content%d %s k%d o%d", content, variant, k, outcome), "k": k, "outcome": outcome, "variant": variant, "n1": n1, "n2": n2,
		// records that expire between the restart and the restarted instance's first maintenance run
		"gc_from": int64(crashAt + 3*time.Second), "gc_to": int64(crashAt + maint - 3*time.Second)}
	return p
}

func init() {
	Register(&Prop{
		ID: "C11", Level: "fault_enumeration", Gen: c11Gen,
		Check:       func(p *Plan, r *RunResult) *Verdict { return &Verdict{} },
		Rule:        "case n = (content c, kind in {crash in a maintenance snapshot, crash in the shutdown snapshot, disk error in a maintenance snapshot followed by a kill}, point k in 0..13, power-loss outcome in {unsynced data lost, kept, torn} resp. error in {ENOSPC, EIO, short write}): every crash point of the snapshot pair (about 10 mutating file-system operations: create, write, sync, close, rename for each of the two files; k beyond the last one = crash right after completion) times every outcome is run for each content; contents have 0-60 (thorough up to 3000) silences/log entries per phase with 1-3 matcher sets, annotations, ended-but-retained silences, typed receiver data, new versions of old records in phase 2 and an API-created silence; one content in five also runs the loader on every prefix (all lengths up to 4 KiB, 600 sampled beyond) and 24 bit-flip corruptions of both snapshot files. After the comparison the restarted instance runs on for one maintenance interval, completes a snapshot of its own, is killed and started again: its state must equal what it held after that snapshot (leftovers of the first crash must not leak into later snapshots). Non-trivial: the restarted instance's state was compared with both snapshots; distinct: by (content, kind, k, outcome).",
		Real:        []string{"app.New wiring", "silence.Silences and nflog.Log (Maintenance, Snapshot, openReplace/replaceFile, loadSnapshot, decodeState, Merge)", "app start-up on an existing data directory"},
		Stub:        []string{"clock (synctest)", "disk: simfs (in-memory, journalled; power-loss model: namespace operations survive in order, file data only up to the last Sync)"},
		Assumptions: []string{"power-loss model: create/rename/remove are durable in issue order (ordered metadata journal), file data is durable only after Sync on that file; a kill without power loss is the outcome 'all written data kept'", "the two snapshot writers run one after the other at a maintenance tick (one P); the crash point indexes their combined operation sequence"},
	})
}
