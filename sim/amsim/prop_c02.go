package amsim

import (
	"bytes"
	"context"
	"fmt"
	"sort"
	"strings"
	"time"

	"github.com/prometheus/common/model"
	"google.golang.org/protobuf/encoding/protodelim"
	"google.golang.org/protobuf/types/known/timestamppb"

	"github.com/prometheus/alertmanager/marker"
	"github.com/prometheus/alertmanager/silence"
	pb "github.com/prometheus/alertmanager/silence/silencepb"
)

// C02 — silenced alerts are never notified; the mute verdict equals the stored silences.
//
// Workload on one real instance: silence create/edit/expire through the API;
// replicated versions handed to Silences.Merge (extend, shorten, expire, revive
// after local expiry, stale, duplicate, brand-new ids, two OR-ed matcher sets);
// explicit and maintenance GC; alert GC (cache eviction); graceful restarts
// (snapshot reload); alert posts. Probes: for every label set of the run,
// Silencer.Mutes with a marker (the path the pipeline and the API use) is compared
// with a brute-force evaluation of everything Silences.Query() returns. Concurrent
// probes are parked at the yield points inside Mutes while the driver updates the
// store; their verdict must equal the brute-force verdict of some store state
// between invocation and return, and later sequential probes show whether the
// cache was poisoned.

type silDump struct {
	ID      string    `json:"id"`
	Sets    [][]M     `json:"sets"`
	Start   time.Time `json:"start"`
	End     time.Time `json:"end"`
	Updated time.Time `json:"updated"`
}

func pbOp(t pb.Matcher_Type) string {
	switch t {
	case pb.Matcher_EQUAL:
		return "="
	case pb.Matcher_NOT_EQUAL:
		return "!="
	case pb.Matcher_REGEXP:
		return "=~"
	default:
		return "!~"
	}
}

func opPb(op string) pb.Matcher_Type {
	switch op {
	case "=":
		return pb.Matcher_EQUAL
	case "!=":
		return pb.Matcher_NOT_EQUAL
	case "=~":
		return pb.Matcher_REGEXP
	default:
		return pb.Matcher_NOT_REGEXP
	}
}

func dumpOf(s *pb.Silence) silDump {
	d := silDump{ID: s.Id, Start: s.StartsAt.AsTime(), End: s.EndsAt.AsTime(), Updated: s.UpdatedAt.AsTime()}
	for _, ms := range s.MatcherSets {
		var set []M
		for _, m := range ms.Matchers {
			set = append(set, M{Name: m.Name, Op: pbOp(m.Type), Value: m.Pattern})
		}
		d.Sets = append(d.Sets, set)
	}
	return d
}

// dumpSilences lists every stored silence of instance i (Query without filter).
func (w *World) dumpSilences(i int) []silDump {
	in := w.Insts[i]
	if in.App == nil {
		return nil
	}
	sils, _, err := in.Int.Silences.Query(context.Background())
	if err != nil {
		return nil
	}
	var out []silDump
	for _, s := range sils {
		out = append(out, dumpOf(s))
	}
	sort.Slice(out, func(a, b int) bool { return out[a].ID < out[b].ID })
	return out
}

// bruteMutedBy is the direct evaluation: ids of active silences one of whose matcher sets matches.
func bruteMutedBy(sils []silDump, ls map[string]string, now time.Time) []string {
	var ids []string
	for _, s := range sils {
		if now.Before(s.Start) || now.After(s.End) {
			continue
		}
		for _, set := range s.Sets {
			if len(set) > 0 && matchAll(set, ls) {
				ids = append(ids, s.ID)
				break
			}
		}
	}
	sort.Strings(ids)
	return ids
}

// onBoundary reports whether some stored silence starts or ends exactly now.
func onBoundary(sils []silDump, now time.Time) bool {
	for _, s := range sils {
		if now.Equal(s.Start) || now.Equal(s.End) {
			return true
		}
	}
	return false
}

// mutesProbe calls the real Silencer with a marker.
func (w *World) mutesProbe(i int, ls map[string]string) (bool, []string) {
	in := w.Insts[i]
	lset := model.LabelSet{}
	for k, v := range ls {
		lset[model.LabelName(k)] = model.LabelValue(v)
	}
	mk := marker.NewAlertMarker()
	ctx := marker.WithContext(context.Background(), mk)
	muted := in.Int.Silencer.Mutes(ctx, lset)
	ids := append([]string(nil), mk.Status(lset.Fingerprint()).SilencedBy...)
	sort.Strings(ids)
	return muted, ids
}

type c02Async struct {
	Labels      map[string]string
	Invoke, Ret Dur
	Muted       bool
	IDs         []string
	Done        bool
}

type c02State struct {
	hist  []c02Hist
	async []*c02Async
	last  map[string]*pb.MeshSilence // plan key -> last version seen (survives GC)
}

type c02Hist struct {
	T    Dur
	Sils []silDump
}

func c02st(w *World) *c02State {
	if w.Scratch == nil {
		w.Scratch = map[string]any{}
	}
	st, _ := w.Scratch["c02"].(*c02State)
	if st == nil {
		st = &c02State{last: map[string]*pb.MeshSilence{}}
		w.Scratch["c02"] = st
	}
	return st
}

func (w *World) c02Record() {
	st := c02st(w)
	if w.Insts[0].App == nil {
		return
	}
	st.hist = append(st.hist, c02Hist{T: w.H.now(), Sils: w.dumpSilences(0)})
	// remember the latest version per plan key
	in := w.Insts[0]
	for key, id := range w.SilIDs {
		if sils, _, err := in.Int.Silences.Query(context.Background(), silence.QIDs(id)); err == nil && len(sils) == 1 {
			st.last[key] = &pb.MeshSilence{Silence: sils[0], ExpiresAt: timestamppb.New(sils[0].EndsAt.AsTime().Add(w.retention()))}
		}
	}
}

func (w *World) retention() Dur {
	if w.Plan.Opts.Retention > 0 {
		return w.Plan.Opts.Retention
	}
	return 120 * time.Hour
}

func eqIDs(a, b []string) bool {
	if len(a) != len(b) {
		return false
	}
	for i := range a {
		if a[i] != b[i] {
			return false
		}
	}
	return true
}

func (w *World) c02ProbeAll(why string) { w.probeMutes("C02", 0, why) }

// probeMutes compares Silencer.Mutes of instance i with the direct evaluation for every label set.
func (w *World) probeMutes(prop string, i int, why string) {
	in := w.Insts[i]
	if in.App == nil {
		return
	}
	now := time.Now()
	sils := w.dumpSilences(i)
	if onBoundary(sils, now) {
		return
	}
	for _, ls := range w.Plan.LabelSets {
		want := bruteMutedBy(sils, ls, now)
		muted, ids := w.mutesProbe(i, ls)
		w.Online.Ob("mute-verdict-equals-direct-evaluation")
		if muted != (len(want) > 0) || !eqIDs(ids, want) {
			sig := prop + "/verdict-differs-from-stored-silences"
			switch {
			case !muted && len(want) > 0:
				sig = prop + "/active-matching-silence-does-not-mute"
			case muted && len(want) == 0:
				sig = prop + "/muted-without-active-matching-silence"
			default:
				sig = prop + "/silenced-by-ids-differ"
			}
			if prop == "C02" && w.c02RacedInPlaceEdit(ls) {
				// the cache entry was written by a parked concurrent call that straddled the
				// previous end of a matching silence while an in-place API edit moved that end
				sig += ":after-concurrent-query-straddled-end-during-in-place-edit"
			}
			w.Online.Fail(prop, sig, w.H.now(), "Silencer.Mutes(%s) = %v by %v; direct evaluation of the %d stored silences gives %v (%s; silences: %s)", labelsKey(ls), muted, w.silNames(ids), len(sils), w.silNames(want), why, w.silBrief(sils, now))
			return
		}
	}
}

// c02RacedInPlaceEdit reports whether a completed concurrent probe for ls ran
// while a matching silence was updated under its id (same UpdatedAt source: a
// local API edit, which does not bump the store version) and the silence's
// previous end instant fell inside the probe's execution.
func (w *World) c02RacedInPlaceEdit(ls map[string]string) bool {
	st := c02st(w)
	w.mu.Lock()
	defer w.mu.Unlock()
	for _, r := range st.async {
		if !r.Done || labelsKey(r.Labels) != labelsKey(ls) {
			continue
		}
		ret := r.Ret
		if ret < 0 {
			ret = -ret
		}
		for i := 1; i < len(st.hist); i++ {
			h := st.hist[i]
			if h.T < r.Invoke || h.T > ret {
				continue
			}
			prev := map[string]silDump{}
			for _, s := range st.hist[i-1].Sils {
				prev[s.ID] = s
			}
			for _, s := range h.Sils {
				o, ok := prev[s.ID]
				if !ok || o.End.Equal(s.End) {
					continue
				}
				oe := o.End.Sub(w.Plan.Start)
				matches := false
				for _, set := range s.Sets {
					if matchAll(set, ls) {
						matches = true
					}
				}
				if matches && oe >= r.Invoke && oe <= ret && w.wasAPIEdit(h.T) {
					return true
				}
			}
		}
	}
	return false
}

// wasAPIEdit reports whether the action executed at offset t was an API silence edit.
func (w *World) wasAPIEdit(t Dur) bool {
	for _, a := range w.H.API {
		if a.Action >= 0 && a.Method == "POST" && strings.HasPrefix(a.Path, "/api/v2/silences") && a.Code == 200 && t >= a.T && t-a.T <= time.Millisecond {
			return true
		}
	}
	return false
}

func (w *World) silNames(ids []string) []string {
	var out []string
	for _, id := range ids {
		if k, ok := w.SilKeyOf[id]; ok {
			out = append(out, k)
		} else {
			out = append(out, "id:"+id[:min(8, len(id))])
		}
	}
	return out
}

func (w *World) silBrief(sils []silDump, now time.Time) string {
	var parts []string
	for _, s := range sils {
		st := "active"
		if now.Before(s.Start) {
			st = "pending"
		} else if now.After(s.End) {
			st = "expired"
		}
		name := w.silNames([]string{s.ID})[0]
		parts = append(parts, fmt.Sprintf("%s %s %v", name, st, s.Sets))
	}
	return strings.Join(parts, "; ")
}

func marshalMesh(ms ...*pb.MeshSilence) []byte {
	var buf bytes.Buffer
	for _, m := range ms {
		c := &pb.MeshSilence{Silence: cloneSil(m.Silence), ExpiresAt: m.ExpiresAt}
		if len(c.Silence.MatcherSets) > 0 {
			c.Silence.Matchers = c.Silence.MatcherSets[0].Matchers
		}
		protodelim.MarshalTo(&buf, c)
	}
	return buf.Bytes()
}

func cloneSil(s *pb.Silence) *pb.Silence {
	c := &pb.Silence{Id: s.Id, StartsAt: s.StartsAt, EndsAt: s.EndsAt, UpdatedAt: s.UpdatedAt, Comment: s.Comment, CreatedBy: s.CreatedBy}
	for _, ms := range s.MatcherSets {
		n := &pb.MatcherSet{}
		for _, m := range ms.Matchers {
			n.Matchers = append(n.Matchers, &pb.Matcher{Type: m.Type, Name: m.Name, Pattern: m.Pattern})
		}
		c.MatcherSets = append(c.MatcherSets, n)
	}
	return c
}

func pbSets(sets [][]M) []*pb.MatcherSet {
	var out []*pb.MatcherSet
	for _, set := range sets {
		ms := &pb.MatcherSet{}
		for _, m := range set {
			ms.Matchers = append(ms.Matchers, &pb.Matcher{Type: opPb(m.Op), Name: m.Name, Pattern: m.Value})
		}
		out = append(out, ms)
	}
	return out
}

func init() {
	setupHooks["C02"] = func(w *World) {
		w.PostAction = func(idx int) { w.c02Record() }
	}
	RegisterAction("mute_probe", func(w *World, idx int, a *Action) { w.c02ProbeAll("sequential probe") })
	// mute_async: a concurrent Mutes call; holds with Match "@async" park it inside Mutes.
	RegisterAction("mute_async", func(w *World, idx int, a *Action) {
		in := w.Insts[0]
		if in.App == nil {
			return
		}
		st := c02st(w)
		rec := &c02Async{Labels: a.Labels, Invoke: w.H.now()}
		st.async = append(st.async, rec)
		go func() {
			w.MarkAsync(true)
			defer w.MarkAsync(false)
			muted, ids := w.mutesProbe(0, a.Labels)
			w.mu.Lock()
			rec.Muted, rec.IDs, rec.Ret, rec.Done = muted, ids, w.H.now(), true
			w.mu.Unlock()
		}()
	})
	// merge_sil: a replicated version arrives through Silences.Merge.
	RegisterAction("merge_sil", func(w *World, idx int, a *Action) {
		in := w.Insts[0]
		if in.App == nil {
			return
		}
		st := c02st(w)
		now := time.Now()
		ret := w.retention()
		var msgs []*pb.MeshSilence
		mk := func(base *pb.Silence) *pb.Silence { return cloneSil(base) }
		cur := st.last[a.SilKey]
		switch a.Str {
		case "new", "multiset":
			id := fmt.Sprintf("%08x-0000-4000-8000-%012x", uint32(Hash64(w.Plan.Seed, a.SilKey)), idx)
			var sets [][]M
			if err := jsonUnmarshal(string(a.Blob), &sets); err != nil || len(sets) == 0 {
				return
			}
			s := &pb.Silence{Id: id, MatcherSets: pbSets(sets), StartsAt: timestamppb.New(now.Add(-a.D / 4)), EndsAt: timestamppb.New(now.Add(a.D)), UpdatedAt: timestamppb.New(now.Add(-a.D / 4)), Comment: a.SilKey, CreatedBy: "peer"}
			msgs = append(msgs, &pb.MeshSilence{Silence: s, ExpiresAt: timestamppb.New(s.EndsAt.AsTime().Add(ret))})
			w.SilIDs[a.SilKey] = id
			w.SilKeyOf[id] = a.SilKey
		default:
			if cur == nil {
				return
			}
			s := mk(cur.Silence)
			upd := cur.Silence.UpdatedAt.AsTime()
			switch a.Str {
			case "extend":
				s.EndsAt = timestamppb.New(s.EndsAt.AsTime().Add(a.D))
				s.UpdatedAt = timestamppb.New(maxTime(upd.Add(time.Millisecond), now.Add(-time.Second)))
			case "shorten":
				s.EndsAt = timestamppb.New(now.Add(a.D / 8))
				s.UpdatedAt = timestamppb.New(maxTime(upd.Add(time.Millisecond), now.Add(-time.Second)))
			case "expire":
				s.EndsAt = timestamppb.New(now.Add(-time.Millisecond))
				if s.StartsAt.AsTime().After(s.EndsAt.AsTime()) {
					s.StartsAt = s.EndsAt
				}
				s.UpdatedAt = timestamppb.New(maxTime(upd.Add(time.Millisecond), now.Add(-time.Millisecond)))
			case "revive":
				// an edit made elsewhere before the silence ended, delivered only now
				s.EndsAt = timestamppb.New(now.Add(a.D))
				s.UpdatedAt = timestamppb.New(upd.Add(time.Millisecond))
			case "stale":
				s.EndsAt = timestamppb.New(now.Add(a.D))
				s.UpdatedAt = timestamppb.New(upd.Add(-time.Second))
			case "dup":
			}
			msgs = append(msgs, &pb.MeshSilence{Silence: s, ExpiresAt: timestamppb.New(s.EndsAt.AsTime().Add(ret))})
		}
		err := in.Int.Silences.Merge(marshalMesh(msgs...))
		w.H.AddEvent("merge-sil", in.Name, fmt.Sprintf("%s %s err=%v", a.Str, a.SilKey, err))
		w.H.Fire("merge:" + a.Str)
	})
	finalHooks["C02"] = func(w *World) {
		w.c02ProbeAll("final probe")
		w.c02CheckAsync()
		for _, ls := range w.Plan.LabelSets {
			if w.c02RacedInPlaceEdit(ls) {
				w.H.AddEvent("c02-raced", "a", labelsKey(ls))
			}
		}
	}
	RegisterAction("async_collect", func(w *World, idx int, a *Action) { w.c02CheckAsync() })
}

func maxTime(a, b time.Time) time.Time {
	if a.After(b) {
		return a
	}
	return b
}

// c02CheckAsync: the verdict of a concurrent probe must equal the brute-force
// verdict for some store state between its invocation and its return.
func (w *World) c02CheckAsync() {
	st := c02st(w)
	w.mu.Lock()
	defer w.mu.Unlock()
	for _, r := range st.async {
		if !r.Done || r.Ret < 0 {
			continue
		}
		// states in force during [Invoke, Ret]: the last one recorded before Invoke and all recorded within
		var states []c02Hist
		var before *c02Hist
		for i := range st.hist {
			h := &st.hist[i]
			if h.T <= r.Invoke {
				before = h
			} else if h.T <= r.Ret {
				states = append(states, *h)
			}
		}
		if before != nil {
			states = append([]c02Hist{*before}, states...)
		}
		if len(states) == 0 {
			r.Ret = -r.Ret
			continue
		}
		// Regular-register reading per silence: every id the call reports was muting
		// the label set in some store state at some instant of the call, and every id
		// that was muting it in all of them is reported.
		var wants [][]string
		for i, h := range states {
			from := h.T
			if from < r.Invoke {
				from = r.Invoke
			}
			to := r.Ret
			if i+1 < len(states) {
				to = states[i+1].T
			}
			times := []Dur{from, to, r.Ret}
			for _, s := range h.Sils {
				for _, bd := range []time.Time{s.Start, s.End} {
					bo := bd.Sub(w.Plan.Start)
					if bo >= from && bo <= r.Ret {
						times = append(times, bo-time.Millisecond, bo+time.Millisecond)
					}
				}
			}
			for _, t := range times {
				wants = append(wants, bruteMutedBy(h.Sils, r.Labels, w.Plan.Start.Add(t)))
			}
		}
		union, inter := map[string]bool{}, map[string]int{}
		for _, ws := range wants {
			for _, id := range ws {
				union[id] = true
				inter[id]++
			}
		}
		ok := r.Muted == (len(r.IDs) > 0)
		got := map[string]bool{}
		for _, id := range r.IDs {
			got[id] = true
			if !union[id] {
				ok = false
			}
		}
		for id, n := range inter {
			if n == len(wants) && !got[id] {
				ok = false
			}
		}
		w.Online.Ob("concurrent-verdict-is-regular")
		w.H.Probe("async-probe-checked")
		if len(states) > 1 {
			w.H.Probe("async-probe-overlapped-an-update")
		}
		if !ok {
			sig := "C02/concurrent-verdict-not-regular"
			w.mu.Unlock()
			raced := w.c02RacedInPlaceEdit(r.Labels)
			w.mu.Lock()
			if raced {
				sig += ":after-concurrent-query-straddled-end-during-in-place-edit"
			}
			w.Online.Fail("C02", sig, r.Ret, "concurrent Silencer.Mutes(%s) invoked at %v returned at %v with %v by %v, which reports an id that muted it in no store state of that interval or omits one that muted it in all of them: %v", labelsKey(r.Labels), r.Invoke, r.Ret, r.Muted, w.silNames(r.IDs), wants)
		}
		r.Ret = -r.Ret
	}
}

var c02MatcherSets = [][]M{
	{{"alertname", "=", "A"}}, {{"alertname", "=~", "A|B"}}, {{"alertname", "!=", "C"}, {"job", "=", "j1"}}, {{"job", "!~", "j2"}, {"severity", "=~", "crit.*|warn.*"}},
	{{"cluster", "=", "c1"}}, {{"cluster", "!=", "c2"}, {"alertname", "=", "B"}}, {{"alertname", "=", "C"}, {"cluster", "!~", "c.+"}}, {{"severity", "=", "critical"}},
}

func c02Gen(seed uint64, tier string) *Plan {
	rng := NewRng(seed)
	start := BubbleEpoch.Add(10*24*time.Hour + Dur(rng.Intn(86400*300))*time.Second)
	p := &Plan{Prop: "C02", Family: "single", Seed: seed, Start: start}
	cfg := &Config{ResolveTimeout: rng.Dur(time.Minute, 4*time.Minute),
		Route:     &Route{Receiver: "r0", GroupBy: []string{"alertname"}, GroupBySet: true, GroupWait: rng.Dur(0, 10*time.Second), GroupWaitSet: true, GroupInterval: rng.Dur(10*time.Second, time.Minute), RepeatInterval: rng.Dur(2*time.Minute, 20*time.Minute)},
		Receivers: []Receiver{{Name: "r0", Webhooks: []Webhook{{SendResolved: rng.Bool(0.5)}}}}}
	p.Configs = []*Config{cfg}
	p.Insts = []InstPlan{{Name: "a"}}
	p.Opts = InstOpts{Retention: rng.Dur(time.Minute, 15*time.Minute), MaintenanceInterval: rng.Dur(20*time.Second, 5*time.Minute) + 13,
		AlertGCInterval: rng.Dur(10*time.Second, 3*time.Minute) + 29, DispatchMaintenance: 30*time.Second + 7}
	sets := genLabelSets(rng.Fork("sets"), rng.Range(3, 8))
	p.LabelSets = sets
	b := &planBuilder{p: p, used: map[Dur]bool{}}
	horizon := rng.Dur(15*time.Minute, 50*time.Minute)
	if tier == "thorough" {
		horizon = rng.Dur(20*time.Minute, 2*time.Hour)
	}
	p.Horizon = horizon
	merges := rng.Bool(0.6)
	// alerts: a few fire/heartbeat/resolve timelines so that flushes and alert GC happen
	for _, ls := range sets {
		if !rng.Bool(0.7) {
			continue
		}
		t := rng.Dur(time.Second, horizon/2)
		for n := rng.Range(1, 6); n > 0 && t < horizon-time.Minute; n-- {
			b.add(Action{At: t, Kind: "post", Alerts: []PAlert{{Labels: ls}}})
			t += cfg.ResolveTimeout/2 + rng.Dur(0, cfg.ResolveTimeout/4)
		}
		if rng.Bool(0.5) {
			z := Dur(0)
			b.add(Action{At: t, Kind: "post", Alerts: []PAlert{{Labels: ls, EndOff: &z}}, Str: "resolve"})
		}
	}
	// silences
	nsil := rng.Range(1, 5)
	for i := 0; i < nsil; i++ {
		key := fmt.Sprintf("s%d", i)
		ms := Pick(rng, c02MatcherSets)
		at := rng.Dur(time.Second, horizon*2/3)
		dur := rng.Dur(30*time.Second, 12*time.Minute)
		viaMerge := merges && rng.Bool(0.3)
		if viaMerge {
			sets2 := [][]M{ms}
			kind := "new"
			if rng.Bool(0.4) {
				sets2 = append(sets2, Pick(rng, c02MatcherSets))
				kind = "multiset"
			}
			b.add(Action{At: at, Kind: "merge_sil", SilKey: key, Str: kind, D: dur, Blob: []byte(mustJSON(sets2))})
		} else {
			s := &PSilence{Key: key, Matchers: ms, EndOff: dur}
			if rng.Bool(0.25) {
				s.StartOff = rng.Dur(10*time.Second, 2*time.Minute)
				s.EndOff += s.StartOff
			}
			b.add(Action{At: at, Kind: "silence", Sil: s})
		}
		// follow-up operations on this silence
		for n := rng.Range(0, 5); n > 0; n-- {
			t := at + rng.Dur(5*time.Second, dur+p.Opts.Retention+time.Minute)
			if rng.Bool(0.4) {
				// aim at the expiry: shortly before/after the end
				t = at + dur + Pick(rng, []Dur{-2 * time.Second, 2 * time.Second, 20 * time.Second, 2 * time.Minute})
			}
			if t >= horizon-time.Second || t <= at {
				continue
			}
			switch k := rng.Intn(10); {
			case k < 2 && !viaMerge:
				em := ms
				if rng.Bool(0.3) {
					// the same matchers with one operator flipped (a history-rewriting edit)
					em = append([]M(nil), ms...)
					j := rng.Intn(len(em))
					em[j].Op = map[string]string{"=": "!=", "!=": "=", "=~": "!~", "!~": "=~"}[em[j].Op]
				}
				b.add(Action{At: t, Kind: "silence", Sil: &PSilence{Key: key, EditOf: key, Matchers: em, KeepStart: true, EndOff: rng.Dur(30*time.Second, 10*time.Minute)}})
			case k < 3:
				b.add(Action{At: t, Kind: "expire", SilKey: key})
			case k < 8 && merges:
				b.add(Action{At: t, Kind: "merge_sil", SilKey: key, Str: Pick(rng, []string{"extend", "shorten", "expire", "revive", "revive", "stale", "dup"}), D: rng.Dur(time.Minute, 10*time.Minute)})
			case k < 9:
				b.add(Action{At: t, Kind: "silence_gc"})
			default:
				b.add(Action{At: t, Kind: "mute_probe"})
			}
		}
	}
	if rng.Bool(0.25) {
		b.add(Action{At: rng.Dur(time.Minute, horizon-time.Minute), Kind: "restart", D: rng.Dur(0, 10*time.Second)})
	}
	// sequential probes all over the run
	for n := rng.Range(10, 40); n > 0; n-- {
		b.add(Action{At: rng.Dur(time.Second, horizon-time.Second), Kind: "mute_probe"})
	}
	// API reads go through the same cache
	for n := rng.Range(0, 6); n > 0; n-- {
		b.add(Action{At: rng.Dur(time.Second, horizon-time.Second), Kind: "get_alerts"})
	}
	// concurrent probes parked inside Mutes while the next actions run
	if rng.Bool(0.5) {
		sites := []string{"silencer.mutes.read", "silencer.mutes.queried", "silencer.mutes.beforeSet"}
		for n := rng.Range(1, 3); n > 0; n-- {
			p.Holds = append(p.Holds, Hold{Site: Pick(rng, sites), Match: "@async", Delay: rng.Dur(500*time.Millisecond, 20*time.Second) + 3})
		}
		p.SortActions()
		// start async probes right before silence-changing actions
		var starts []Dur
		for _, a := range p.Actions {
			if (a.Kind == "silence" || a.Kind == "merge_sil" || a.Kind == "expire") && rng.Bool(0.7) {
				starts = append(starts, a.At-Dur(rng.Range(1, 400))*time.Millisecond)
			}
		}
		for _, t := range starts {
			if t > time.Second {
				b.add(Action{At: t, Kind: "mute_async", Labels: Pick(rng, sets)})
			}
		}
		for n := 3; n > 0; n-- {
			b.add(Action{At: rng.Dur(horizon/2, horizon-time.Second), Kind: "async_collect"})
		}
	}
	p.SortActions()
	p.Params = map[string]any{"merges": merges}
	if ra := rng.Fork("autoholds"); ra.Bool(0.3) {
		p.Holds = append(p.Holds, AutoHolds(ra, AutoSitesSilence[:2], ra.Range(1, 2), 24, 50*time.Millisecond, 60*time.Second)...)
	}
	return p
}

// checkSilencedNotNotified: no notification lists an alert that the model says
// was silenced during the whole window in which its flush can have started.
func checkSilencedNotNotified(prop string, m *Model, v *Verdict) {
	for _, n := range m.H.Notifs {
		if n.Inst != m.Name {
			continue
		}
		_, _, _, giMax, _, ok := m.routeOpts(n)
		if !ok {
			giMax = m.Root.GroupInterval
		}
		win := flushTimeout(giMax) + c01Slack
		for _, a := range n.Alerts {
			if _, known := m.Labels[a.LKey]; !known {
				continue
			}
			v.Ob("no-silenced-alert-in-notification")
			if m.Throughout(n.T-win, n.T, false, func(t Dur) bool { return len(m.SilencedBy(a.Labels, t)) > 0 }) && !m.Disturbed(n.T-win, n.T) {
				sig := prop + "/silenced-alert-notified"
				for _, e := range m.H.Events {
					if e.Kind == "c02-raced" && e.Msg == a.LKey {
						sig += ":after-concurrent-query-straddled-end-during-in-place-edit"
					}
				}
				v.Fail(prop, sig, n.T, "notification to %s/%d at %v lists %s (%s), which was silenced throughout [%v,%v]", n.Receiver, n.Integ, n.T, a.LKey, a.Status, n.T-win, n.T)
			}
		}
	}
}

func c02Check(p *Plan, r *RunResult) *Verdict {
	v := &Verdict{}
	hasMerge := false
	for _, a := range p.Actions {
		if a.Kind == "merge_sil" {
			hasMerge = true
		}
	}
	if !hasMerge {
		m := BuildModel(p, r.H, 0)
		checkSilencedNotNotified("C02", m, v)
		checkO1("C02", m, v, 0) // a silence that ended or was expired stops muting at the next flush
	}
	return v
}

func init() {
	Register(&Prop{
		ID: "C02", Level: "exploration", Gen: c02Gen, Check: c02Check,
		Rule:        "seeded history on one real instance: 1-5 silences created through the API or arriving as replicated versions via Silences.Merge (one or two OR-ed matcher sets; = != =~ !~), follow-ups aimed around their expiry (API edit/expire; merged extend/shorten/expire/revive-after-expiry/stale/duplicate versions; explicit GC), maintenance GC every 20 s-5 min with retention 1-15 min, alert timelines with provider GC every 10 s-3 min (mute-cache eviction), optional graceful restart (snapshot reload), 10-40 sequential probes of Silencer.Mutes for every label set of the run, API reads, and in half of the runs concurrent probes parked for 0.5-20 s at the yield points inside Mutes while the following updates run. Non-trivial: at least one probe was compared with the direct evaluation; distinct by abstract trace plus fault/merge mix.",
		Real:        []string{"app.New wiring", "silence.Silences (Set, expire, Merge, GC, Query, snapshot load)", "silence.Silencer + cache", "provider/mem GC callback", "api/v2", "dispatch + notify pipeline (mute stage)"},
		Stub:        []string{"clock (synctest)", "peer (crafted protobuf handed to Silences.Merge)", "receiver endpoint", "snapshot disk (simfs)", "parking of concurrent Mutes calls at verifhook yield sites"},
		Assumptions: []string{"probes that fall exactly on a silence's start or end instant are skipped (the two state functions in the code base read the boundary differently)", "concurrent verdicts are accepted if they equal the direct evaluation of any store state recorded between invocation and return"},
	})
}
