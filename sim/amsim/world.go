package amsim

import (
	"bytes"
	"context"
	"encoding/json"
	"fmt"
	"github.com/prometheus/alertmanager/alert"
	"io"
	"log/slog"
	"net"
	"net/http"
	"net/http/httptest"
	"os"
	"path/filepath"
	"sort"
	"strings"
	"sync"
	"time"

	"github.com/google/uuid"
	"github.com/prometheus/client_golang/prometheus"
	commoncfg "github.com/prometheus/common/config"
	"github.com/prometheus/exporter-toolkit/web"

	"github.com/prometheus/alertmanager/app"
	"github.com/prometheus/alertmanager/featurecontrol"
	"github.com/prometheus/alertmanager/pkg/verifhook"

	"verif/sim/simfs"
	"verif/sim/simnet"
	"verif/sim/simrand"
)

// Inst is one simulated Alertmanager process.
type Inst struct {
	Idx     int
	Name    string
	App     *app.App
	H       http.Handler
	Int     app.VerifInternals
	Reg     *prometheus.Registry
	DataDir string
	CfgFile string
	Alive   bool
	Gen     int // incarnation
	CfgIdx  int
	Addr    string
}

// World owns everything outside the simulated processes.
type World struct {
	Plan  *Plan
	H     *History
	Insts []*Inst
	dir   string
	wh    *webhookWorld
	Net   *simnet.Net
	// SilIDs maps plan-level silence keys to the id the API returned.
	SilIDs map[string]string
	// SilKeyOf is the reverse map (for canonical logs).
	SilKeyOf map[string]string
	logW     io.Writer
	Online   *Verdict
	// PostAction, when set, runs on the driver after every executed action.
	PostAction func(idx int)
	// OnStart, when set, runs after every successful (re)start of an instance.
	OnStart    func(i int)
	CurAction  int
	mu         sync.Mutex
	asyncGoids map[uint64]bool
	autoHolds  bool
	workerOf   map[uint64]*workerTag
	DriverG    uint64        // the driver goroutine is never suspended by an auto hold
	holdGate   chan struct{} // closed to release every goroutine suspended by an auto hold
	quiescing  bool
	lockDepth  map[uint64]int // instrumented locks held, per goroutine
	lockCount  map[string]int // acquisitions so far, per function
	Scratch    map[string]any // per-run state of property-specific handlers
	holdMu     sync.Mutex
	holdHits   map[string]int
}

// deterministic reader for uuid.SetRand.
type detReader struct {
	mu sync.Mutex
	s  uint64
}

func (r *detReader) Read(p []byte) (int, error) {
	r.mu.Lock()
	defer r.mu.Unlock()
	for i := range p {
		if i%8 == 0 {
			r.s = mix64(r.s)
		}
		p[i] = byte(r.s >> (8 * (i % 8)))
	}
	return len(p), nil
}

var processTmp string

// ProcessTmp returns a per-process scratch directory (config files, data dirs).
func ProcessTmp() string {
	if processTmp == "" {
		d, err := os.MkdirTemp("", "amsim-")
		if err != nil {
			panic(err)
		}
		processTmp = d
	}
	return processTmp
}

// CleanupProcessTmp removes the scratch directory.
func CleanupProcessTmp() {
	if processTmp != "" {
		os.RemoveAll(processTmp)
		processTmp = ""
	}
}

var runCounter int

// NewWorld prepares a world for plan p. Must be called inside the bubble.
func NewWorld(p *Plan) *World {
	runCounter++
	w := &World{
		Plan:      p,
		H:         NewHistory(p.Start),
		dir:       filepath.Join(ProcessTmp(), fmt.Sprintf("run%d", runCounter)),
		SilIDs:    map[string]string{},
		SilKeyOf:  map[string]string{},
		holdHits:  map[string]int{},
		lockDepth: map[uint64]int{}, lockCount: map[string]int{}, holdGate: make(chan struct{}),
	}
	os.MkdirAll(w.dir, 0o755)
	if os.Getenv("VERIF_LOG") != "" {
		w.logW = TraceBuf
	}
	simfs.Reset()
	simfs.Latency = func(kind, path, caller string) time.Duration {
		// keyed by the calling package (silence / nflog), not by the path: the
		// temp-file suffix is random, and the duration must tell the two writers apart
		return 20*time.Microsecond + time.Duration(Hash64(p.Seed, kind, caller)%9973)
	}
	simrand.Reset(p.Seed ^ 0x5151)
	uuid.SetRand(&detReader{s: p.Seed ^ 0xabcdef})
	w.wh = newWebhookWorld(w)
	if p.Opts.Cluster {
		w.Net = simnet.New(p.Seed, p.Start)
		if verboseBodies {
			w.Net.Trace = func(s string) { fmt.Fprintln(TraceBuf, "NET "+s) }
		}
	}
	verifhook.GetFn = w.hookGet
	verifhook.YieldFn = w.hookYield
	for _, h := range p.Holds {
		if strings.HasPrefix(h.Site, "auto.") {
			w.autoHolds = true
		}
	}
	for i, ip := range p.Insts {
		w.Insts = append(w.Insts, &Inst{Idx: i, Name: ip.Name, CfgIdx: ip.Cfg,
			DataDir: filepath.Join(w.dir, "data-"+ip.Name),
			CfgFile: filepath.Join(w.dir, "am-"+ip.Name+".yml"),
			Addr:    fmt.Sprintf("10.0.0.%d:9094", i+1)})
	}
	return w
}

// Close tears the world down (still inside the bubble).
func (w *World) Close() {
	for _, in := range w.Insts {
		if in.App != nil {
			w.StopInst(in.Idx, "close")
		}
	}
	w.wh.close()
	verifhook.GetFn = nil
	verifhook.YieldFn = nil
	simfs.Latency = nil
	uuid.SetRand(nil)
	os.RemoveAll(w.dir)
}

func (w *World) hookGet(key string, args ...any) any {
	switch key {
	case "receiver.httpopts":
		return []commoncfg.HTTPClientOption{
			commoncfg.WithDialContextFunc(w.wh.dial),
			commoncfg.WithKeepAlivesDisabled(),
		}
	case "dispatch.concurrency":
		// the number of ingestion workers (the stock value derives from GOMAXPROCS,
		// which stays 1 in a simulation process)
		if n := w.Plan.Opts.Workers; n > 0 {
			return n
		}
		return nil
	case "cluster.transport":
		if w.Net == nil {
			return nil
		}
		name, _ := args[0].(string)
		for _, in := range w.Insts {
			if in.Name == name {
				return w.Net.NewTransport(in.Name, in.Addr)
			}
		}
	}
	return nil
}

// TraceBuf collects debugging output (VERIF_LOG / VERIF_VERBOSE=2) in memory;
// it is written out after the run, so that tracing makes no system calls (which
// would let the scheduler hand the P to another goroutine) while the run lasts.
var TraceBuf = &traceBuffer{}

type traceBuffer struct {
	mu sync.Mutex
	b  bytes.Buffer
}

func (t *traceBuffer) Write(p []byte) (int, error) {
	t.mu.Lock()
	defer t.mu.Unlock()
	return t.b.Write(p)
}

// Flush writes the collected trace to stderr.
func (t *traceBuffer) Flush() {
	t.mu.Lock()
	defer t.mu.Unlock()
	os.Stderr.Write(t.b.Bytes())
	t.b.Reset()
}

// quiesce releases the goroutines suspended by auto holds and keeps new ones from
// being suspended until the returned function is called.
func (w *World) quiesce() func() {
	w.mu.Lock()
	close(w.holdGate)
	w.quiescing = true
	w.mu.Unlock()
	return func() {
		w.mu.Lock()
		w.holdGate = make(chan struct{})
		w.quiescing = false
		w.mu.Unlock()
	}
}

type workerTag struct {
	key string
	n   int
}

// goid returns the current goroutine's id (simulation only).
func goid() uint64 { return runtimeGoidFn() }

// MarkAsync tags the calling goroutine: holds whose Match is "@async" apply only to tagged goroutines.
func (w *World) MarkAsync(on bool) {
	w.mu.Lock()
	if w.asyncGoids == nil {
		w.asyncGoids = map[uint64]bool{}
	}
	if on {
		w.asyncGoids[goid()] = true
	} else {
		delete(w.asyncGoids, goid())
	}
	w.mu.Unlock()
}

func (w *World) isAsync() bool {
	w.mu.Lock()
	defer w.mu.Unlock()
	return w.asyncGoids[goid()]
}

func (w *World) hookYield(site string, args ...any) {
	if j := w.Plan.RecvJitter; j > 0 && site == "dispatch.worker.recv" {
		for _, a := range args {
			if al, ok := a.(*alert.Alert); ok {
				key := fmt.Sprintf("%s|%v|%d|%d|%d", al.Labels, al.Annotations, al.StartsAt.UnixNano(), al.EndsAt.UnixNano(), al.UpdatedAt.UnixNano())
				time.Sleep(1 + Dur(Hash64(w.Plan.Seed, "recv-jitter", key)%uint64(j)))
			}
		}
	}
	if len(w.Plan.Holds) == 0 {
		return
	}
	if site == "dispatch.worker.recv" && w.autoHolds {
		// tag the worker with the update it now processes (lock-free ingestion path)
		w.mu.Lock()
		if w.workerOf == nil {
			w.workerOf = map[uint64]*workerTag{}
		}
		w.workerOf[goid()] = &workerTag{key: w.canonYield(site, args)}
		w.mu.Unlock()
	}
	if strings.HasPrefix(site, "auto.") {
		// Lock instrumentation (sim/cmd/genoverlay instrumentLocks). A goroutine is
		// only ever suspended right before it acquires a lock while holding none of
		// the instrumented ones.
		if !w.autoHolds {
			return
		}
		g := goid()
		var delay Dur
		w.mu.Lock()
		switch site {
		case "auto.locked":
			w.lockDepth[g]++
		case "auto.unlocked":
			if w.lockDepth[g] > 1 {
				w.lockDepth[g]--
			} else {
				delete(w.lockDepth, g)
			}
		case "auto.lock":
			name, _ := args[0].(string)
			n := w.lockCount[name]
			w.lockCount[name] = n + 1
			free := w.lockDepth[g] == 0 && g != w.DriverG
			for _, h := range w.Plan.Holds {
				if free && h.Site == "auto.lock" && h.Match == name && (h.Nth == n || h.Nth < 0) {
					if now := w.H.now(); h.To > 0 && (now < h.From || now >= h.To) {
						continue
					}
					delay = h.Delay
				}
			}
			// "auto.store": the j-th synchronisation point (store-lock acquisition, or
			// operation on the dispatcher's lock-free group map) of the ingestion worker
			// that processes a given update
			if tag := w.workerOf[g]; tag != nil && (strings.HasPrefix(name, "store.") || strings.HasPrefix(name, "dispatch.")) {
				for _, h := range w.Plan.Holds {
					if free && h.Site == "auto.store" && strings.Contains(tag.key, h.Match) && h.Nth == tag.n {
						delay = h.Delay
					}
				}
				tag.n++
			}
		}
		gate := w.holdGate
		if w.quiescing {
			delay = 0
		}
		w.mu.Unlock()
		if delay > 0 {
			w.H.Fire("hold:" + site)
			if name, _ := args[0].(string); strings.HasPrefix(name, "inhibit.") {
				// oracles that read the API right after a submission need to know that the
				// inhibitor was being held back
				w.H.AddEvent("auto-hold", "", fmt.Sprintf("%s %d", name, int64(delay)))
			}
			// released early when an instance is asked to stop or reload: a graceful
			// stop waits for its background goroutines and must not take as long as a hold
			select {
			case <-time.After(delay):
			case <-gate:
			}
		}
		return
	}
	var key string
	for _, h := range w.Plan.Holds {
		if h.Site != site {
			continue
		}
		if key == "" {
			key = w.canonYield(site, args)
		}
		if strings.HasPrefix(h.Match, "@async") {
			if !w.isAsync() || !strings.Contains(key, strings.TrimPrefix(h.Match, "@async")) {
				continue
			}
			w.H.Fire("hold:" + site)
			time.Sleep(h.Delay)
			return
		}
		if h.Match == "" || strings.Contains(key, h.Match) {
			w.H.Fire("hold:" + site)
			time.Sleep(h.Delay)
			return
		}
	}
}

// canonYield builds the content key: for alerts "labels@updatedAtOffsetNs".
func (w *World) canonYield(site string, args []any) string {
	var parts []string
	for _, a := range args {
		parts = append(parts, alertYieldKey(a, w.Plan.Start))
	}
	return strings.Join(parts, "|")
}

func (w *World) logger(name string) *slog.Logger {
	if w.logW == nil {
		return slog.New(slog.NewTextHandler(io.Discard, &slog.HandlerOptions{Level: slog.LevelError + 4}))
	}
	return slog.New(slog.NewTextHandler(w.logW, &slog.HandlerOptions{Level: slog.LevelDebug})).With("inst", name, "vt", vtime{w})
}

type vtime struct{ w *World }

func (v vtime) String() string       { return v.w.H.now().String() }
func (v vtime) LogValue() slog.Value { return slog.StringValue(v.w.H.now().String()) }

func orDur(d, def Dur) Dur {
	if d > 0 {
		return d
	}
	return def
}

// StartInst creates incarnation of instance i on whatever its disk holds.
func (w *World) StartInst(i int) error {
	in := w.Insts[i]
	p := w.Plan
	cfg := p.Configs[in.CfgIdx]
	if err := os.WriteFile(in.CfgFile, []byte(cfg.YAML(in.Name)), 0o644); err != nil {
		return err
	}
	simfs.Track(in.DataDir)
	simfs.MarkCrashed(in.DataDir, false)
	o := app.DefaultOptions()
	o.ConfigFile = in.CfgFile
	o.DataDir = in.DataDir
	o.Logger = w.logger(in.Name)
	in.Reg = prometheus.NewRegistry()
	o.Registerer = in.Reg
	o.Flagger = featurecontrol.NoopFlags{}
	addrs := []string{"127.0.0.1:0"}
	empty := ""
	o.WebConfig = &web.FlagConfig{WebListenAddresses: &addrs, WebConfigFile: &empty}
	o.ExternalURL = "http://am-" + in.Name + ".sim:9093"
	o.Retention = orDur(p.Opts.Retention, 120*time.Hour)
	o.MaintenanceInterval = orDur(p.Opts.MaintenanceInterval, 15*time.Minute)
	o.AlertGCInterval = orDur(p.Opts.AlertGCInterval, 30*time.Minute)
	o.DispatchMaintenanceInterval = orDur(p.Opts.DispatchMaintenance, 30*time.Second)
	o.DispatchStartDelay = p.Opts.DispatchStartDelay
	o.PerAlertNameLimit = p.Opts.PerAlertNameLimit
	o.MaxSilences = p.Opts.MaxSilences
	o.MaxSilenceSizeBytes = p.Opts.MaxSilenceSize
	o.GetConcurrency = p.Opts.GetConcurrency
	o.HTTPTimeout = 0
	if p.Opts.Cluster {
		o.ClusterBindAddr = in.Addr
		o.ClusterAdvertiseAddr = in.Addr
		o.ClusterPeerName = in.Name
		o.AllowInsecureAdvertise = true
		o.PeerTimeout = orDur(p.Opts.PeerTimeout, 15*time.Second)
		o.GossipInterval = orDur(p.Opts.GossipInterval, 200*time.Millisecond+7)
		o.PushPullInterval = orDur(p.Opts.PushPullInterval, 60*time.Second+29)
		o.ProbeInterval = orDur(p.Opts.ProbeInterval, time.Second+13)
		o.ProbeTimeout = orDur(p.Opts.ProbeTimeout, 500*time.Millisecond+3)
		o.SettleTimeout = orDur(p.Opts.SettleTimeout, 5*time.Second)
		o.ReconnectInterval = orDur(p.Opts.ReconnectInterval, 10*time.Second+17)
		o.TCPTimeout = 2*time.Second + 5
		for _, pi := range p.Insts[i].Peers {
			o.Peers = append(o.Peers, w.Insts[pi].Addr)
		}
		w.Net.SetAlive(in.Name, true)
	}
	a, err := app.New(o)
	if err != nil {
		w.H.AddEvent("start-failed", in.Name, err.Error())
		return err
	}
	in.App = a
	in.H = a.VerifHandler()
	in.Int = a.VerifInternals()
	in.Alive = true
	in.Gen++
	w.H.AddEvent("start", in.Name, fmt.Sprintf("gen=%d cfg=%d", in.Gen, in.CfgIdx))
	if w.OnStart != nil {
		w.OnStart(i)
	}
	return nil
}

// StopInst stops instance i gracefully (shutdown snapshots are written).
func (w *World) StopInst(i int, why string) {
	in := w.Insts[i]
	if in.App == nil {
		return
	}
	done := w.quiesce()
	_ = in.App.Stop(context.Background())
	done()
	in.App.VerifForget()
	in.App = nil
	in.H = nil
	if in.Alive && why != "close" {
		// the tear-down at the end of a run is not part of the history (how long a
		// peer takes to leave the mesh depends on library internals)
		w.H.AddEvent("stop", in.Name, why)
	}
	in.Alive = false
	if w.Net != nil {
		w.Net.SetAlive(in.Name, false)
	}
}

// CrashInst kills instance i: from this instant nothing it does is visible
// (receivers, network, disk). Stop is still called, for goroutine clean-up only.
func (w *World) CrashInst(i int, powerLoss func(path string) int) {
	in := w.Insts[i]
	if in.App == nil {
		return
	}
	in.Alive = false
	simfs.MarkCrashed(in.DataDir, true)
	if w.Net != nil {
		w.Net.SetAlive(in.Name, false)
	}
	w.H.AddEvent("crash", in.Name, "")
	w.H.Fire("crash")
	done := w.quiesce()
	_ = in.App.Stop(context.Background())
	done()
	in.App.VerifForget()
	in.App = nil
	in.H = nil
	if powerLoss != nil {
		simfs.PowerLoss(in.DataDir, powerLoss)
	}
}

// Reload rewrites the configuration file of instance i and reloads it.
func (w *World) Reload(i, cfgIdx int) error {
	in := w.Insts[i]
	if in.App == nil {
		return fmt.Errorf("instance down")
	}
	cfg := w.Plan.Configs[cfgIdx]
	if err := os.WriteFile(in.CfgFile, []byte(cfg.YAML(in.Name)), 0o644); err != nil {
		return err
	}
	err := in.App.Reload()
	if err != nil {
		w.H.AddEvent("reload-rejected", in.Name, fmt.Sprintf("cfg=%d", cfgIdx))
		w.H.Fire("reload-rejected")
		return err
	}
	in.CfgIdx = cfgIdx
	w.H.AddEvent("reload", in.Name, fmt.Sprintf("cfg=%d", cfgIdx))
	w.H.Fire("reload")
	return nil
}

// Do performs one API call on the driver goroutine through the real mux.
func (w *World) Do(i, action int, method, path, body string) (int, string) {
	in := w.Insts[i]
	rec := &APIRec{T: w.H.now(), Inst: in.Name, Action: action, Method: method, Path: path, Body: body}
	if in.H == nil {
		rec.Code = -1
		w.H.addAPI(rec)
		return -1, ""
	}
	var rd io.Reader
	if body != "" {
		rd = strings.NewReader(body)
	}
	req := httptest.NewRequest(method, path, rd)
	if body != "" {
		req.Header.Set("Content-Type", "application/json")
	}
	rr := httptest.NewRecorder()
	in.H.ServeHTTP(rr, req)
	rec.Code = rr.Code
	rec.Resp = rr.Body.String()
	w.H.addAPI(rec)
	return rec.Code, rec.Resp
}

// ---- typed API helpers ----

type apiAlertStatus struct {
	InhibitedBy []string `json:"inhibitedBy"`
	MutedBy     []string `json:"mutedBy"`
	SilencedBy  []string `json:"silencedBy"`
	State       string   `json:"state"`
}

type APIAlert struct {
	Labels      map[string]string `json:"labels"`
	Annotations map[string]string `json:"annotations"`
	StartsAt    time.Time         `json:"startsAt"`
	EndsAt      time.Time         `json:"endsAt"`
	UpdatedAt   time.Time         `json:"updatedAt"`
	Fingerprint string            `json:"fingerprint"`
	Receivers   []struct {
		Name string `json:"name"`
	} `json:"receivers"`
	Status apiAlertStatus `json:"status"`
}

func (a *APIAlert) ReceiverNames() []string {
	var out []string
	for _, r := range a.Receivers {
		out = append(out, r.Name)
	}
	sort.Strings(out)
	return out
}

type APIGroup struct {
	Labels   map[string]string `json:"labels"`
	Receiver struct {
		Name string `json:"name"`
	} `json:"receiver"`
	Alerts []APIAlert `json:"alerts"`
}

type APISilence struct {
	ID        string    `json:"id"`
	StartsAt  time.Time `json:"startsAt"`
	EndsAt    time.Time `json:"endsAt"`
	UpdatedAt time.Time `json:"updatedAt"`
	CreatedBy string    `json:"createdBy"`
	Comment   string    `json:"comment"`
	Status    struct {
		State string `json:"state"`
	} `json:"status"`
	Matchers []struct {
		Name    string `json:"name"`
		Value   string `json:"value"`
		IsRegex bool   `json:"isRegex"`
		IsEqual *bool  `json:"isEqual"`
	} `json:"matchers"`
}

func (w *World) GetAlerts(i, action int, query string) ([]APIAlert, int) {
	path := "/api/v2/alerts"
	if query != "" {
		path += "?" + query
	}
	code, body := w.Do(i, action, "GET", path, "")
	var out []APIAlert
	if code == 200 {
		if err := json.Unmarshal([]byte(body), &out); err != nil {
			return nil, -2
		}
	}
	return out, code
}

func (w *World) GetGroups(i, action int, query string) ([]APIGroup, int) {
	path := "/api/v2/alerts/groups"
	if query != "" {
		path += "?" + query
	}
	code, body := w.Do(i, action, "GET", path, "")
	var out []APIGroup
	if code == 200 {
		if err := json.Unmarshal([]byte(body), &out); err != nil {
			return nil, -2
		}
	}
	return out, code
}

func (w *World) GetSilences(i, action int) ([]APISilence, int) {
	code, body := w.Do(i, action, "GET", "/api/v2/silences", "")
	var out []APISilence
	if code == 200 {
		if err := json.Unmarshal([]byte(body), &out); err != nil {
			return nil, -2
		}
	}
	return out, code
}

func rfc(t time.Time) string { return t.UTC().Format("2006-01-02T15:04:05.000Z07:00") }

// PostAlerts renders and sends a POST /api/v2/alerts action at the current instant.
func (w *World) PostAlerts(i, action int, alerts []PAlert) (int, string) {
	now := time.Now()
	type pa struct {
		Labels      map[string]string `json:"labels"`
		Annotations map[string]string `json:"annotations,omitempty"`
		StartsAt    string            `json:"startsAt,omitempty"`
		EndsAt      string            `json:"endsAt,omitempty"`
	}
	var out []pa
	for _, a := range alerts {
		x := pa{Labels: a.Labels, Annotations: a.Annotations}
		switch {
		case a.StartAbs != nil:
			x.StartsAt = rfc(w.Plan.Start.Add(*a.StartAbs))
		case a.StartOff != nil:
			x.StartsAt = rfc(now.Add(*a.StartOff))
		}
		switch {
		case a.EndAbs != nil:
			x.EndsAt = rfc(w.Plan.Start.Add(*a.EndAbs))
		case a.EndOff != nil:
			x.EndsAt = rfc(now.Add(*a.EndOff))
		}
		out = append(out, x)
	}
	b, _ := json.Marshal(out)
	return w.Do(i, action, "POST", "/api/v2/alerts", string(b))
}

func silenceBody(id string, s *PSilence, now time.Time) string {
	return silenceBodyAt(id, s, now.Add(s.StartOff), now.Add(s.EndOff))
}

func silenceBodyAt(id string, s *PSilence, start, end time.Time) string {
	type pm struct {
		Name    string `json:"name"`
		Value   string `json:"value"`
		IsRegex bool   `json:"isRegex"`
		IsEqual bool   `json:"isEqual"`
	}
	type ps struct {
		ID        string `json:"id,omitempty"`
		Matchers  []pm   `json:"matchers"`
		StartsAt  string `json:"startsAt"`
		EndsAt    string `json:"endsAt"`
		CreatedBy string `json:"createdBy"`
		Comment   string `json:"comment"`
	}
	x := ps{ID: id, StartsAt: rfc(start), EndsAt: rfc(end), CreatedBy: s.CreatedBy, Comment: s.Comment}
	if x.CreatedBy == "" {
		x.CreatedBy = "sim"
	}
	if x.Comment == "" {
		x.Comment = s.Key
	}
	for _, m := range s.Matchers {
		x.Matchers = append(x.Matchers, pm{Name: m.Name, Value: m.Value, IsRegex: m.Op == "=~" || m.Op == "!~", IsEqual: m.Op == "=" || m.Op == "=~"})
	}
	b, _ := json.Marshal(x)
	return string(b)
}

// PostSilence creates or edits a silence; on success the plan key now maps to
// the returned id. Returns the HTTP code and the id.
func (w *World) PostSilence(i, action int, s *PSilence) (int, string) {
	id := ""
	if s.EditOf != "" {
		id = w.SilIDs[s.EditOf]
		if id == "" {
			id = "00000000-0000-0000-0000-000000000000"
		}
	}
	if s.RawID != "" {
		id = s.RawID
	}
	now := time.Now()
	start, end := now.Add(s.StartOff), now.Add(s.EndOff)
	if (s.KeepStart || s.KeepEnd) && id != "" {
		if c, b := w.Do(i, -1, "GET", "/api/v2/silence/"+id, ""); c == 200 {
			var cur APISilence
			if json.Unmarshal([]byte(b), &cur) == nil {
				if s.KeepStart {
					start = cur.StartsAt
				}
				if s.KeepEnd {
					end = cur.EndsAt
				}
			}
		}
	}
	code, body := w.Do(i, action, "POST", "/api/v2/silences", silenceBodyAt(id, s, start, end))
	if code != 200 {
		return code, ""
	}
	var r struct {
		SilenceID string `json:"silenceID"`
	}
	json.Unmarshal([]byte(body), &r)
	w.SilIDs[s.Key] = r.SilenceID
	if _, ok := w.SilKeyOf[r.SilenceID]; !ok {
		w.SilKeyOf[r.SilenceID] = s.Key
	}
	return code, r.SilenceID
}

func (w *World) ExpireSilence(i, action int, key string) int {
	id := w.SilIDs[key]
	if id == "" {
		id = "00000000-0000-0000-0000-000000000000"
	}
	code, _ := w.Do(i, action, "DELETE", "/api/v2/silence/"+id, "")
	return code
}

// ---- simulated receiver world ----

type pipeListener struct {
	ch   chan net.Conn
	done chan struct{}
	once sync.Once
}

func (l *pipeListener) Accept() (net.Conn, error) {
	select {
	case c := <-l.ch:
		return c, nil
	case <-l.done:
		return nil, net.ErrClosed
	}
}
func (l *pipeListener) Close() error   { l.once.Do(func() { close(l.done) }); return nil }
func (l *pipeListener) Addr() net.Addr { return &net.TCPAddr{IP: net.IPv4(10, 9, 9, 9), Port: 80} }

type webhookWorld struct {
	w   *World
	l   *pipeListener
	srv *http.Server
}

func newWebhookWorld(w *World) *webhookWorld {
	ww := &webhookWorld{w: w, l: &pipeListener{ch: make(chan net.Conn), done: make(chan struct{})}}
	ww.srv = &http.Server{Handler: ww, ErrorLog: nil}
	go ww.srv.Serve(ww.l)
	return ww
}

func (ww *webhookWorld) close() {
	ww.srv.Close()
	ww.l.Close()
}

func (ww *webhookWorld) dial(ctx context.Context, network, addr string) (net.Conn, error) {
	c1, c2 := net.Pipe()
	select {
	case ww.l.ch <- c1:
		return c2, nil
	case <-ww.l.done:
		return nil, fmt.Errorf("sim: receiver world closed")
	case <-ctx.Done():
		return nil, ctx.Err()
	}
}

// BaseLatency is the response time of a healthy receiver.
const BaseLatency = 3*time.Millisecond + 11

func (ww *webhookWorld) fault(inst string, instIdx int, receiver string, integ int, t Dur) *RcvFault {
	for k := range ww.w.Plan.Faults {
		f := &ww.w.Plan.Faults[k]
		if (f.Inst == -1 || f.Inst == instIdx) && f.Receiver == receiver && f.Integ == integ && t >= f.From && t < f.To {
			return f
		}
	}
	return nil
}

type whPayload struct {
	Receiver          string            `json:"receiver"`
	Status            string            `json:"status"`
	Alerts            []NAlert          `json:"alerts"`
	GroupLabels       map[string]string `json:"groupLabels"`
	CommonLabels      map[string]string `json:"commonLabels"`
	CommonAnnotations map[string]string `json:"commonAnnotations"`
	GroupKey          string            `json:"groupKey"`
	TruncatedAlerts   int               `json:"truncatedAlerts"`
}

func (ww *webhookWorld) ServeHTTP(rw http.ResponseWriter, r *http.Request) {
	w := ww.w
	parts := strings.Split(strings.Trim(r.URL.Path, "/"), "/")
	body, _ := io.ReadAll(r.Body)
	if len(parts) != 3 {
		rw.WriteHeader(404)
		return
	}
	var in *Inst
	for _, x := range w.Insts {
		if x.Name == parts[0] {
			in = x
		}
	}
	if in == nil || !in.Alive {
		// A crashed process: nothing it sends is visible.
		panic(http.ErrAbortHandler)
	}
	integ := 0
	fmt.Sscanf(parts[2], "%d", &integ)
	var p whPayload
	if err := json.Unmarshal(body, &p); err != nil {
		w.H.AddEvent("bad-payload", in.Name, err.Error())
		rw.WriteHeader(400)
		return
	}
	for i := range p.Alerts {
		p.Alerts[i].LKey = labelsKey(p.Alerts[i].Labels)
	}
	n := &Notif{T: w.H.now(), Inst: in.Name, Receiver: parts[1], Integ: integ, GroupKey: p.GroupKey, Status: p.Status,
		GroupLabels: p.GroupLabels, CommonLabels: p.CommonLabels, CommonAnnotations: p.CommonAnnotations,
		Truncated: p.TruncatedAlerts, Alerts: p.Alerts, PayloadReceiver: p.Receiver, BodyHash: shortHash(string(body))}
	f := ww.fault(in.Name, in.Idx, parts[1], integ, n.T)
	mode := "2xx"
	// distinct per (instance, receiver, integration): integrations of one
	// receiver are notified in parallel and must not answer at the same instant
	lat := BaseLatency + Dur(integ)*1013 + Dur(in.Idx)*10007 + Dur(Hash64(0, parts[1])%911)
	if f != nil {
		mode = f.Mode
		if f.Latency > 0 {
			lat = f.Latency
		}
		w.H.Fire("rcv:" + mode)
	}
	n.Outcome = mode
	n.Latency = lat
	switch mode {
	case "hang":
		w.H.addNotif(n)
		<-r.Context().Done()
		n.Done = w.H.now() // the instant the sender gave up (its own time-out or the flush deadline)
		panic(http.ErrAbortHandler)
	case "reset":
		w.H.addNotif(n)
		panic(http.ErrAbortHandler)
	case "slow":
		// Answers 2xx after lat; if the client gave up first the delivery is "late":
		// processed by the receiver but not seen as a success by the sender.
		select {
		case <-time.After(lat):
			n.Outcome = "2xx"
		case <-r.Context().Done():
			n.Outcome = "late"
			n.Done = w.H.now()
			w.H.addNotif(n)
			panic(http.ErrAbortHandler)
		}
		n.Done = w.H.now()
		w.H.addNotif(n)
		rw.WriteHeader(200)
		return
	}
	select {
	case <-time.After(lat):
	case <-r.Context().Done():
		n.Outcome = "late"
		w.H.addNotif(n)
		panic(http.ErrAbortHandler)
	}
	n.Done = w.H.now()
	w.H.addNotif(n)
	switch mode {
	case "5xx":
		rw.WriteHeader(503)
	case "4xx":
		rw.WriteHeader(400)
	default:
		rw.WriteHeader(200)
	}
}

var _ = bytes.NewReader
