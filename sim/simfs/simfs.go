// Package simfs is the simulated disk under the two snapshot writers
// (silence/silence.go and nflog/nflog.go have their "os" import aliased to this
// package at build time). It mirrors the subset of package os a snapshot
// writer could plausibly use, keeps every file in memory, journals every
// operation, can fail or crash at a chosen operation, and implements a
// power-loss model: file data is volatile until Sync on that file; namespace
// operations (create, rename, remove) are journalled in order and survive.
package simfs

import (
	"errors"
	"fmt"
	"io"
	"io/fs"
	realos "os"
	"runtime"
	"sort"
	"strings"
	"sync"
	"syscall"
	"time"
)

// Re-exported names so that code written against package os compiles.
type (
	FileMode  = fs.FileMode
	FileInfo  = fs.FileInfo
	PathError = fs.PathError
)

const (
	O_RDONLY = realos.O_RDONLY
	O_WRONLY = realos.O_WRONLY
	O_RDWR   = realos.O_RDWR
	O_APPEND = realos.O_APPEND
	O_CREATE = realos.O_CREATE
	O_EXCL   = realos.O_EXCL
	O_SYNC   = realos.O_SYNC
	O_TRUNC  = realos.O_TRUNC

	ModePerm = fs.ModePerm
)

var (
	ErrNotExist   = fs.ErrNotExist
	ErrExist      = fs.ErrExist
	ErrClosed     = fs.ErrClosed
	ErrPermission = fs.ErrPermission
	ErrInvalid    = fs.ErrInvalid
)

func IsNotExist(err error) bool { return errors.Is(err, fs.ErrNotExist) }
func IsExist(err error) bool    { return errors.Is(err, fs.ErrExist) }

// Op is one journalled file-system operation.
type Op struct {
	Seq  int    `json:"seq"`
	Kind string `json:"kind"` // create open write sync close rename remove truncate
	Path string `json:"path"`
	To   string `json:"to,omitempty"`
	N    int    `json:"n,omitempty"`
	Err  string `json:"err,omitempty"`
}

func (o Op) String() string {
	s := fmt.Sprintf("%d %s %s", o.Seq, o.Kind, o.Path)
	if o.To != "" {
		s += " -> " + o.To
	}
	if o.N != 0 {
		s += fmt.Sprintf(" n=%d", o.N)
	}
	if o.Err != "" {
		s += " err=" + o.Err
	}
	return s
}

type inode struct {
	data    []byte // current (volatile) content
	durable []byte // content as of the last Sync
	synced  bool   // data == durable
}

// Fault tells the FS to misbehave at mutating operation number At (counted
// per data-directory prefix, from 0, over create/write/sync/close/rename/remove).
type Fault struct {
	Prefix string
	At     int
	Kind   string // "crash" (this op and all later ones do nothing and fail), "eio", "enospc", "short"
}

type disk struct {
	mu      sync.Mutex
	files   map[string]*inode
	journal []Op
	counts  map[string]int // mutating ops per prefix
	faults  []Fault
	crashed map[string]bool
	fired   map[string]int
	onCrash func(prefix string)
}

var d = newDisk()

// Latency, when set, is slept (outside any simfs lock) at the start of every
// open/create/sync/close/rename/remove: disk operations take time, and because
// the duration depends on the path the two snapshot writers, which are woken by
// tickers with one interval, never act at the same virtual instant. Reads and
// writes do not sleep: the snapshot writers hold a store lock while writing.
var Latency func(kind, path, caller string) time.Duration

// callerPkg names the package of the first caller outside simfs (the two snapshot
// writers are told apart by it even if they were to use one file name).
func callerPkg() string {
	var pcs [12]uintptr
	n := runtime.Callers(3, pcs[:])
	fr := runtime.CallersFrames(pcs[:n])
	for {
		f, more := fr.Next()
		if f.Function != "" && !strings.Contains(f.Function, "sim/simfs.") {
			fn := f.Function
			if i := strings.LastIndexByte(fn, '/'); i >= 0 {
				if j := strings.IndexByte(fn[i:], '.'); j >= 0 {
					return fn[:i+j]
				}
			}
			return fn
		}
		if !more {
			return ""
		}
	}
}

func lag(kind, path string) {
	if f := Latency; f != nil {
		if dl := f(kind, path, callerPkg()); dl > 0 {
			time.Sleep(dl)
		}
	}
}

func newDisk() *disk {
	return &disk{files: map[string]*inode{}, counts: map[string]int{}, crashed: map[string]bool{}, fired: map[string]int{}}
}

// Reset wipes the whole simulated disk (start of a run).
func Reset() {
	d.mu.Lock()
	defer d.mu.Unlock()
	d.files = map[string]*inode{}
	d.journal = nil
	d.counts = map[string]int{}
	d.faults = nil
	d.crashed = map[string]bool{}
	d.fired = map[string]int{}
	d.onCrash = nil
}

// SetFaults installs the fault list; OnCrash is called (outside the lock) the
// first time a crash fault fires for a prefix.
func SetFaults(f []Fault, onCrash func(prefix string)) {
	d.mu.Lock()
	d.faults = append([]Fault(nil), f...)
	d.onCrash = onCrash
	d.mu.Unlock()
}

// Fired reports how often each fault kind fired.
func Fired() map[string]int {
	d.mu.Lock()
	defer d.mu.Unlock()
	m := map[string]int{}
	for k, v := range d.fired {
		m[k] = v
	}
	return m
}

// Journal returns a copy of the operation journal for paths under prefix.
func Journal(prefix string) []Op {
	d.mu.Lock()
	defer d.mu.Unlock()
	var out []Op
	for _, o := range d.journal {
		if strings.HasPrefix(o.Path, prefix) {
			out = append(out, o)
		}
	}
	return out
}

// MutOps returns the number of mutating operations seen under prefix.
func MutOps(prefix string) int {
	d.mu.Lock()
	defer d.mu.Unlock()
	return d.counts[prefix]
}

// Track registers a prefix whose mutating operations are counted.
func Track(prefix string) {
	d.mu.Lock()
	if _, ok := d.counts[prefix]; !ok {
		d.counts[prefix] = 0
	}
	d.mu.Unlock()
}

// MarkCrashed makes every later operation under prefix fail without effect.
func MarkCrashed(prefix string, v bool) {
	d.mu.Lock()
	d.crashed[prefix] = v
	d.mu.Unlock()
}

// Files lists the paths under prefix with their current content length.
func Files(prefix string) map[string]int {
	d.mu.Lock()
	defer d.mu.Unlock()
	m := map[string]int{}
	for p, in := range d.files {
		if strings.HasPrefix(p, prefix) {
			m[p] = len(in.data)
		}
	}
	return m
}

// Content returns the current content of a file.
func Content(path string) ([]byte, bool) {
	d.mu.Lock()
	defer d.mu.Unlock()
	in, ok := d.files[path]
	if !ok {
		return nil, false
	}
	return append([]byte(nil), in.data...), true
}

// Put stores a fully durable file (used to plant snapshot files).
func Put(path string, b []byte) {
	d.mu.Lock()
	defer d.mu.Unlock()
	c := append([]byte(nil), b...)
	d.files[path] = &inode{data: c, durable: append([]byte(nil), c...), synced: true}
}

// Delete removes a file without journalling.
func Delete(path string) {
	d.mu.Lock()
	delete(d.files, path)
	d.mu.Unlock()
}

// Unsynced lists the files under prefix whose content is not durable.
func Unsynced(prefix string) []string {
	d.mu.Lock()
	defer d.mu.Unlock()
	var out []string
	for p, in := range d.files {
		if strings.HasPrefix(p, prefix) && !in.synced {
			out = append(out, p)
		}
	}
	sort.Strings(out)
	return out
}

// PowerLoss applies a power-loss outcome to every unsynced file under prefix:
// choice(path) returns 0 (only durable content survives), 1 (all written data
// survives) or 2 (durable content plus a torn half of what was appended).
func PowerLoss(prefix string, choice func(path string) int) {
	d.mu.Lock()
	defer d.mu.Unlock()
	for p, in := range d.files {
		if !strings.HasPrefix(p, prefix) || in.synced {
			continue
		}
		switch choice(p) {
		case 0:
			in.data = append([]byte(nil), in.durable...)
		case 1:
		case 2:
			if len(in.data) > len(in.durable) && string(in.data[:len(in.durable)]) == string(in.durable) {
				extra := len(in.data) - len(in.durable)
				in.data = append([]byte(nil), in.data[:len(in.durable)+extra/2]...)
			} else {
				in.data = append([]byte(nil), in.data[:len(in.data)/2]...)
			}
		}
		in.durable = append([]byte(nil), in.data...)
		in.synced = true
	}
}

// begin is called at the start of each mutating operation; it returns the
// injected error for it (nil = proceed normally) and whether it is a short write.
func (k *disk) begin(kind, path, to string) (err error, short bool, seq int, crashCb func()) {
	seq = len(k.journal)
	for prefix := range k.counts {
		if !strings.HasPrefix(path, prefix) {
			continue
		}
		if k.crashed[prefix] {
			return &fs.PathError{Op: kind, Path: path, Err: syscall.EIO}, false, seq, nil
		}
		n := k.counts[prefix]
		k.counts[prefix] = n + 1
		for _, f := range k.faults {
			if f.Prefix != prefix || f.At != n {
				continue
			}
			k.fired[f.Kind]++
			switch f.Kind {
			case "crash":
				k.crashed[prefix] = true
				cb := k.onCrash
				var fn func()
				if cb != nil {
					fn = func() { cb(prefix) }
				}
				return &fs.PathError{Op: kind, Path: path, Err: syscall.EIO}, false, seq, fn
			case "eio":
				return &fs.PathError{Op: kind, Path: path, Err: syscall.EIO}, false, seq, nil
			case "enospc":
				return &fs.PathError{Op: kind, Path: path, Err: syscall.ENOSPC}, false, seq, nil
			case "short":
				return nil, true, seq, nil
			}
		}
	}
	return nil, false, seq, nil
}

func (k *disk) log(o Op) { o.Seq = len(k.journal); k.journal = append(k.journal, o) }

func errStr(err error) string {
	if err == nil {
		return ""
	}
	return err.Error()
}

// File mirrors *os.File.
type File struct {
	mu     sync.Mutex
	name   string
	in     *inode
	pos    int
	flag   int
	closed bool
}

func (f *File) Name() string { return f.name }

func (f *File) Fd() uintptr { return ^uintptr(0) }

func (f *File) Write(b []byte) (int, error) {
	f.mu.Lock()
	defer f.mu.Unlock()
	d.mu.Lock()
	if f.closed {
		d.mu.Unlock()
		return 0, &fs.PathError{Op: "write", Path: f.name, Err: fs.ErrClosed}
	}
	if f.flag&(O_WRONLY|O_RDWR) == 0 {
		d.mu.Unlock()
		return 0, &fs.PathError{Op: "write", Path: f.name, Err: syscall.EBADF}
	}
	err, short, _, cb := d.begin("write", f.name, "")
	n := len(b)
	if err != nil {
		n = 0
	} else if short {
		n = len(b) / 2
		err = &fs.PathError{Op: "write", Path: f.name, Err: syscall.ENOSPC}
	}
	if n > 0 {
		if f.flag&O_APPEND != 0 {
			f.pos = len(f.in.data)
		}
		end := f.pos + n
		if end > len(f.in.data) {
			f.in.data = append(f.in.data, make([]byte, end-len(f.in.data))...)
		}
		copy(f.in.data[f.pos:end], b[:n])
		f.pos = end
		f.in.synced = false
	}
	d.log(Op{Kind: "write", Path: f.name, N: n, Err: errStr(err)})
	d.mu.Unlock()
	if cb != nil {
		cb()
	}
	return n, err
}

func (f *File) WriteString(s string) (int, error) { return f.Write([]byte(s)) }

func (f *File) WriteAt(b []byte, off int64) (int, error) {
	f.mu.Lock()
	old := f.pos
	f.pos = int(off)
	f.mu.Unlock()
	n, err := f.Write(b)
	f.mu.Lock()
	f.pos = old
	f.mu.Unlock()
	return n, err
}

func (f *File) ReadFrom(r io.Reader) (int64, error) {
	buf := make([]byte, 32*1024)
	var total int64
	for {
		n, err := r.Read(buf)
		if n > 0 {
			w, werr := f.Write(buf[:n])
			total += int64(w)
			if werr != nil {
				return total, werr
			}
		}
		if err == io.EOF {
			return total, nil
		}
		if err != nil {
			return total, err
		}
	}
}

func (f *File) Read(b []byte) (int, error) {
	f.mu.Lock()
	defer f.mu.Unlock()
	d.mu.Lock()
	defer d.mu.Unlock()
	if f.closed {
		return 0, &fs.PathError{Op: "read", Path: f.name, Err: fs.ErrClosed}
	}
	if f.pos >= len(f.in.data) {
		return 0, io.EOF
	}
	n := copy(b, f.in.data[f.pos:])
	f.pos += n
	return n, nil
}

func (f *File) ReadAt(b []byte, off int64) (int, error) {
	d.mu.Lock()
	defer d.mu.Unlock()
	if int(off) >= len(f.in.data) {
		return 0, io.EOF
	}
	n := copy(b, f.in.data[off:])
	if n < len(b) {
		return n, io.EOF
	}
	return n, nil
}

func (f *File) Seek(off int64, whence int) (int64, error) {
	f.mu.Lock()
	defer f.mu.Unlock()
	d.mu.Lock()
	defer d.mu.Unlock()
	switch whence {
	case io.SeekStart:
		f.pos = int(off)
	case io.SeekCurrent:
		f.pos += int(off)
	case io.SeekEnd:
		f.pos = len(f.in.data) + int(off)
	}
	if f.pos < 0 {
		f.pos = 0
		return 0, &fs.PathError{Op: "seek", Path: f.name, Err: syscall.EINVAL}
	}
	return int64(f.pos), nil
}

func (f *File) Sync() error {
	lag("sync", f.name)
	f.mu.Lock()
	defer f.mu.Unlock()
	d.mu.Lock()
	if f.closed {
		d.mu.Unlock()
		return &fs.PathError{Op: "sync", Path: f.name, Err: fs.ErrClosed}
	}
	err, _, _, cb := d.begin("sync", f.name, "")
	if err == nil {
		f.in.durable = append([]byte(nil), f.in.data...)
		f.in.synced = true
	}
	d.log(Op{Kind: "sync", Path: f.name, Err: errStr(err)})
	d.mu.Unlock()
	if cb != nil {
		cb()
	}
	return err
}

func (f *File) Truncate(size int64) error {
	f.mu.Lock()
	defer f.mu.Unlock()
	d.mu.Lock()
	err, _, _, cb := d.begin("truncate", f.name, "")
	if err == nil {
		if int(size) <= len(f.in.data) {
			f.in.data = f.in.data[:size]
		} else {
			f.in.data = append(f.in.data, make([]byte, int(size)-len(f.in.data))...)
		}
		f.in.synced = false
	}
	d.log(Op{Kind: "truncate", Path: f.name, N: int(size), Err: errStr(err)})
	d.mu.Unlock()
	if cb != nil {
		cb()
	}
	return err
}

func (f *File) Close() error {
	if f.flag&(O_WRONLY|O_RDWR) != 0 {
		lag("close", f.name)
	}
	f.mu.Lock()
	defer f.mu.Unlock()
	d.mu.Lock()
	if f.closed {
		d.mu.Unlock()
		return &fs.PathError{Op: "close", Path: f.name, Err: fs.ErrClosed}
	}
	f.closed = true
	var err error
	var cb func()
	if f.flag&(O_WRONLY|O_RDWR) != 0 {
		err, _, _, cb = d.begin("close", f.name, "")
		d.log(Op{Kind: "close", Path: f.name, Err: errStr(err)})
	}
	d.mu.Unlock()
	if cb != nil {
		cb()
	}
	return err
}

func (f *File) Chmod(FileMode) error { return nil }

type fileInfo struct {
	name string
	size int64
}

func (i fileInfo) Name() string       { return i.name }
func (i fileInfo) Size() int64        { return i.size }
func (i fileInfo) Mode() fs.FileMode  { return 0o644 }
func (i fileInfo) ModTime() time.Time { return time.Time{} }
func (i fileInfo) IsDir() bool        { return false }
func (i fileInfo) Sys() any           { return nil }

func (f *File) Stat() (FileInfo, error) {
	d.mu.Lock()
	defer d.mu.Unlock()
	return fileInfo{name: base(f.name), size: int64(len(f.in.data))}, nil
}

func base(p string) string {
	if i := strings.LastIndexByte(p, '/'); i >= 0 {
		return p[i+1:]
	}
	return p
}

func OpenFile(name string, flag int, perm FileMode) (*File, error) {
	lag("open", name)
	d.mu.Lock()
	in, ok := d.files[name]
	mutating := flag&(O_CREATE|O_TRUNC) != 0
	var err error
	var cb func()
	if mutating {
		err, _, _, cb = d.begin("create", name, "")
	} else {
		for prefix, c := range d.crashed {
			if c && strings.HasPrefix(name, prefix) {
				err = &fs.PathError{Op: "open", Path: name, Err: syscall.EIO}
			}
		}
	}
	if err == nil {
		switch {
		case !ok && flag&O_CREATE == 0:
			err = &fs.PathError{Op: "open", Path: name, Err: fs.ErrNotExist}
		case ok && flag&O_CREATE != 0 && flag&O_EXCL != 0:
			err = &fs.PathError{Op: "open", Path: name, Err: fs.ErrExist}
		case !ok:
			in = &inode{synced: true}
			d.files[name] = in
		}
	}
	if err == nil && ok && flag&O_TRUNC != 0 && len(in.data) > 0 {
		in.data = nil
		in.synced = false
	}
	if mutating {
		d.log(Op{Kind: "create", Path: name, Err: errStr(err)})
	} else {
		d.log(Op{Kind: "open", Path: name, Err: errStr(err)})
	}
	d.mu.Unlock()
	if cb != nil {
		cb()
	}
	if err != nil {
		return nil, err
	}
	return &File{name: name, in: in, flag: flag}, nil
}

func Create(name string) (*File, error) { return OpenFile(name, O_RDWR|O_CREATE|O_TRUNC, 0o666) }
func Open(name string) (*File, error)   { return OpenFile(name, O_RDONLY, 0) }

var tmpSeq int

func CreateTemp(dir, pattern string) (*File, error) {
	d.mu.Lock()
	tmpSeq++
	n := tmpSeq
	d.mu.Unlock()
	prefix, suffix := pattern, ""
	if i := strings.LastIndexByte(pattern, '*'); i >= 0 {
		prefix, suffix = pattern[:i], pattern[i+1:]
	}
	return OpenFile(fmt.Sprintf("%s/%s%d%s", strings.TrimRight(dir, "/"), prefix, n, suffix), O_RDWR|O_CREATE|O_EXCL, 0o600)
}

func Rename(oldpath, newpath string) error {
	lag("rename", newpath)
	d.mu.Lock()
	err, _, _, cb := d.begin("rename", oldpath, newpath)
	if err == nil {
		in, ok := d.files[oldpath]
		if !ok {
			err = &realos.LinkError{Op: "rename", Old: oldpath, New: newpath, Err: fs.ErrNotExist}
		} else {
			d.files[newpath] = in
			delete(d.files, oldpath)
		}
	}
	d.log(Op{Kind: "rename", Path: oldpath, To: newpath, Err: errStr(err)})
	d.mu.Unlock()
	if cb != nil {
		cb()
	}
	return err
}

func Remove(name string) error {
	lag("remove", name)
	d.mu.Lock()
	err, _, _, cb := d.begin("remove", name, "")
	if err == nil {
		if _, ok := d.files[name]; !ok {
			err = &fs.PathError{Op: "remove", Path: name, Err: fs.ErrNotExist}
		} else {
			delete(d.files, name)
		}
	}
	d.log(Op{Kind: "remove", Path: name, Err: errStr(err)})
	d.mu.Unlock()
	if cb != nil {
		cb()
	}
	return err
}

func ReadFile(name string) ([]byte, error) {
	f, err := Open(name)
	if err != nil {
		return nil, err
	}
	defer f.Close()
	return io.ReadAll(f)
}

func WriteFile(name string, data []byte, perm FileMode) error {
	f, err := OpenFile(name, O_WRONLY|O_CREATE|O_TRUNC, perm)
	if err != nil {
		return err
	}
	_, err = f.Write(data)
	if err1 := f.Close(); err1 != nil && err == nil {
		err = err1
	}
	return err
}

func Stat(name string) (FileInfo, error) {
	d.mu.Lock()
	defer d.mu.Unlock()
	in, ok := d.files[name]
	if !ok {
		return nil, &fs.PathError{Op: "stat", Path: name, Err: fs.ErrNotExist}
	}
	return fileInfo{name: base(name), size: int64(len(in.data))}, nil
}

func Lstat(name string) (FileInfo, error)       { return Stat(name) }
func MkdirAll(path string, perm FileMode) error { return nil }
func Mkdir(path string, perm FileMode) error    { return nil }
func TempDir() string                           { return "/simtmp" }
func Getpid() int                               { return 1 }
func Hostname() (string, error)                 { return "sim", nil }
func Chmod(string, FileMode) error              { return nil }
