// Package simrand is an order-insensitive deterministic replacement for the
// global functions of math/rand and math/rand/v2 that the simulated code uses.
//
// A value is a pure function of (run seed, virtual now, call-site chain,
// ordinal of the draw at that site and instant within the drawing goroutine).
// Two goroutines woken at the same virtual instant therefore get the same
// sequences whichever of them the Go scheduler runs first, unlike a shared PRNG
// stream; the goroutine id is used only to count, never as an input.
package simrand

import (
	"hash/fnv"
	"runtime"
	"sync"
	"time"
)

var (
	mu   sync.Mutex
	seed uint64 = 1
	cur  int64
	ord  = map[[2]uint64]uint64{}
	// Draws counts draws since the last Reset (evidence only).
	draws uint64
)

// Reset starts a new run.
func Reset(s uint64) {
	mu.Lock()
	seed = s
	cur = 0
	clear(ord)
	draws = 0
	mu.Unlock()
}

// Draws returns the number of draws since Reset.
func Draws() uint64 { mu.Lock(); defer mu.Unlock(); return draws }

func goid() uint64 {
	var buf [64]byte
	n := runtime.Stack(buf[:], false)
	var id uint64
	for _, c := range buf[len("goroutine "):n] {
		if c < '0' || c > '9' {
			break
		}
		id = id*10 + uint64(c-'0')
	}
	return id
}

func mix(x uint64) uint64 {
	x += 0x9e3779b97f4a7c15
	x = (x ^ (x >> 30)) * 0xbf58476d1ce4e5b9
	x = (x ^ (x >> 27)) * 0x94d049bb133111eb
	return x ^ (x >> 31)
}

func next() uint64 {
	var pcs [10]uintptr
	n := runtime.Callers(3, pcs[:])
	h := fnv.New64a()
	fr := runtime.CallersFrames(pcs[:n])
	for i := 0; i < 6; i++ {
		f, more := fr.Next()
		h.Write([]byte(f.Function))
		h.Write([]byte{byte(f.Line), byte(f.Line >> 8)})
		if !more {
			break
		}
	}
	site := h.Sum64()
	now := time.Now().UnixNano()
	mu.Lock()
	if now != cur {
		cur = now
		clear(ord)
	}
	key := [2]uint64{site, goid()}
	k := ord[key]
	ord[key] = k + 1
	draws++
	s := seed
	mu.Unlock()
	return mix(mix(s^uint64(now)) ^ mix(site) ^ k)
}

func Int63() int64     { return int64(next() >> 1) }
func Int64() int64     { return int64(next() >> 1) }
func Uint32() uint32   { return uint32(next() >> 32) }
func Uint64() uint64   { return next() }
func Float64() float64 { return float64(next()>>11) / (1 << 53) }
func Int() int         { return int(next() >> 1) }
func Int31() int32     { return int32(next() >> 33) }

func Intn(n int) int {
	if n <= 0 {
		panic("simrand: invalid argument to Intn")
	}
	return int(next() % uint64(n))
}
func IntN(n int) int       { return Intn(n) }
func Int63n(n int64) int64 { return int64(next() % uint64(n)) }
func Int64N(n int64) int64 { return Int63n(n) }
func Int31n(n int32) int32 { return int32(next() % uint64(n)) }

func Shuffle(n int, swap func(i, j int)) {
	x := next()
	for i := n - 1; i > 0; i-- {
		x = mix(x)
		j := int(x % uint64(i+1))
		swap(i, j)
	}
}

func Perm(n int) []int {
	p := make([]int, n)
	for i := range p {
		p[i] = i
	}
	Shuffle(n, func(i, j int) { p[i], p[j] = p[j], p[i] })
	return p
}

// Seed is a no-op kept for source compatibility.
func Seed(int64) {}

// Key is a per-run pseudo-random but fixed ordering key for x: code whose result
// order comes from Go map iteration is given a seeded, reproducible order by
// sorting on it.
func Key(x uint64) uint64 {
	mu.Lock()
	s := seed
	mu.Unlock()
	return mix(mix(s) ^ mix(x))
}
