#!/bin/bash
# Builds the simulation worker from /repo's current working tree (hooks on,
# simulated disk and random source overlaid) into $1 (a scratch directory).
set -euo pipefail
V=$(cd "$(dirname "$0")/.." && pwd)
OUT=${1:?usage: build.sh <scratch-dir>}
TC=/root/go/pkg/mod/golang.org/toolchain@v0.0.1-go1.25.0.linux-amd64
mkdir -p "$OUT/gen"
# The toolchain lives inside the module cache, and the go command refuses overlay
# entries for files beneath GOMODCACHE; reach it through a symlink so that the
# three patched runtime files (see sim/cmd/genoverlay) can be overlaid.
# (a fixed place, so that the build cache keeps serving the compiled standard library)
GR=${TMPDIR:-/tmp}/verif-goroot-go1.25.0
[ "$(readlink "$GR" 2>/dev/null)" = "$TC" ] || ln -sfn "$TC" "$GR"
export GOROOT="$GR" PATH="$GR/bin:$PATH"
export GOTOOLCHAIN=local GOFLAGS=-mod=mod GOPROXY=off GOSUMDB=off CGO_ENABLED=0
REPO=${VERIF_REPO:-/repo}
[ -d "$V/third_party/memberlist" ] || "$V/bin/mkthird.sh" >&2
cd "$V/sim"
cmp -s "$REPO/go.sum" go.sum || { cp "$REPO/go.sum" go.sum.$$ && mv go.sum.$$ go.sum; }
go run ./cmd/genoverlay -repo "$REPO" -out "$OUT/gen"
MODFLAG=()
if [ "$REPO" != /repo ]; then
  sed "s#=> /repo#=> $REPO#" go.mod > "$OUT/go.mod"; cp go.sum "$OUT/go.sum"
  MODFLAG=(-modfile="$OUT/go.mod")
fi
go test -c -tags verif "${MODFLAG[@]}" -overlay "$OUT/gen/overlay.json" -o "$OUT/amsim.test" ./amsim
