#!/bin/bash
# Run once after a fresh restore, offline: prepares the patched third-party
# copies and warms the build cache by building the worker once.
set -euo pipefail
V=$(cd "$(dirname "$0")/.." && pwd)
cd "$V"
[ -d third_party/memberlist ] && [ -d third_party/backoff ] || bin/mkthird.sh
S=$(mktemp -d /tmp/verif-setup-XXXXXX)
trap 'rm -rf "$S"' EXIT
bin/build.sh "$S"
mkdir -p evidence replays
echo "setup ok"
