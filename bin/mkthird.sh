#!/bin/bash
# Makes import-aliased copies of hashicorp/memberlist and cenkalti/backoff from
# the module cache: the only edit is "math/rand" -> rand "verif/sim/simrand".
set -euo pipefail
V=$(cd "$(dirname "$0")/.." && pwd)
MC=${GOMODCACHE:-/root/go/pkg/mod}
ML=$MC/github.com/hashicorp/memberlist@v0.6.0
BO=$MC/github.com/cenkalti/backoff/v5@v5.0.3
T=$V/third_party
rm -rf "$T/memberlist" "$T/backoff"
mkdir -p "$T/memberlist" "$T/backoff"
rsync -a --include='*/' --include='*.go' --include='go.mod' --include='LICENSE' --exclude='*' "$ML/" "$T/memberlist/"
rsync -a --include='*/' --include='*.go' --include='go.mod' --include='LICENSE' --exclude='*' "$BO/" "$T/backoff/"
find "$T" -name '*_test.go' -delete
find "$T" -type d -empty -delete
chmod -R u+w "$T"
sed -i 's#^\t"math/rand"$#\trand "verif/sim/simrand"#' "$T/memberlist/state.go" "$T/memberlist/util.go"
sed -i 's#^\t"math/rand/v2"$#\trand "verif/sim/simrand"#' "$T/backoff/exponential.go"
if grep -rn '"math/rand' "$T" --include=*.go; then echo "unpatched math/rand import left" >&2; exit 2; fi
echo "third_party ready"
