#!/bin/bash
# Makes import-aliased copies of hashicorp/memberlist and cenkalti/backoff from
# the module cache: the edits are "math/rand" -> rand "verif/sim/simrand" and the
# suspicion-timer salt below.
set -euo pipefail
V=$(cd "$(dirname "$0")/.." && pwd)
MC=${GOMODCACHE:-/root/go/pkg/mod}
ML=$MC/github.com/hashicorp/memberlist@v0.6.0
BO=$MC/github.com/cenkalti/backoff/v5@v5.0.3
T=$V/third_party
rm -rf "$T/memberlist" "$T/backoff"
mkdir -p "$T/memberlist" "$T/backoff"
rsync -a --include='*/' --include='*.go' --include='go.mod' --include='LICENSE' --exclude='*' "$ML/" "$T/memberlist/"
rsync -a --include='*/' --include='*.go' --include='go.mod' --include='LICENSE' --exclude='*' "$BO/" "$T/backoff/"
find "$T" -name '*_test.go' -delete
find "$T" -type d -empty -delete
chmod -R u+w "$T"
sed -i 's#^\t"math/rand"$#\trand "verif/sim/simrand"#' "$T/memberlist/state.go" "$T/memberlist/util.go"
sed -i 's#^\t"math/rand/v2"$#\trand "verif/sim/simrand"#' "$T/backoff/exponential.go"
# the suspicion timer is a multiple of the probe interval and starts on a probe
# tick: move it off the tick (no two independent timers share an instant)
sed -i 's#s.timer = time.AfterFunc(timeout, s.timeoutFn)#s.timer = time.AfterFunc(timeout+1777, s.timeoutFn) // verif: off the probe tick, see bin/mkthird.sh#' "$T/memberlist/suspicion.go"
grep -q 'timeout+1777' "$T/memberlist/suspicion.go" || { echo "suspicion timer patch did not apply" >&2; exit 2; }
if grep -rn '"math/rand' "$T" --include=*.go; then echo "unpatched math/rand import left" >&2; exit 2; fi
echo "third_party ready"
