#!/usr/bin/env python3
"""Regenerates /verif/MANIFEST.json from the table below."""
import json, os, subprocess
V = os.path.dirname(os.path.dirname(os.path.abspath(__file__)))

NOTE = ("Trusted base: Go runtime and testing/synctest (virtual clock, quiescence), the harness (plan generator, simulated receiver "
        "world, gossip transport, disk, reference models), one shared clock per run. Sampling, not enumeration, unless stated.")

CLAIMED = {
 "C14": dict(category="fault_enumeration", ref="5 (C14)",
   technique="deterministic simulation: whole app in a synctest bubble; complete enumeration of ingestion-worker release orders via content-keyed holds at a yield point",
   text="Every release order of the ingestion workers for bursts of 2 and 3 back-to-back updates (all refresh/resolve/re-fire sequences, 2/3/4/8 workers) is executed against the real app (API -> provider -> dispatcher -> group -> webhook); sampled beyond (k=4..5, creation inside the burst). The oracle compares the group's copy (GET /alerts/groups updatedAt) and the following notifications with the last accepted submission. Enumeration is the right level: the schedule space at the one place where order can be lost is small and finite."),
}

NA = {
 "C07": "pure function of (routing tree, label set): no schedule, clock, fault or interleaving for a simulator to decide; the reference router inside the simulator reports misrouting under C01/C06/C13",
 "C16": "pure functions of strings (matcher parse/print/match): nothing to simulate",
 "C17": "pure function of configuration bytes; the one fault clause (rejected reload keeps the running configuration) is exercised as a fault in C01 runs",
}
PENDING = {}
for k in ["C01","C02","C03","C04","C05","C06","C08","C09","C10","C11","C12","C13","C15","C18","C19","C20"]:
    if k not in CLAIMED:
        PENDING[k] = "check not built yet in this session (planned, see DESIGN.md section 5); not claimed until it is"

hooks = subprocess.run(["git","-C","/repo","log","--format=%h %s","--grep=^verif:"],capture_output=True,text=True).stdout.strip().splitlines()
m = {
 "version": 1,
 "setup_cmd": "bin/setup.sh",
 "hooks": {
   "guard": "verif (Go build tag)",
   "enable": "go test -c -tags verif -overlay <generated> ./amsim in /verif/sim (module replaces github.com/prometheus/alertmanager => /repo); see bin/build.sh",
   "baseline_off_cmd": "cd /repo && go test -mod=mod -json -vet=off -count=1 -timeout 25m ./...",
   "source_commits": [h.split()[0] for h in hooks],
   "add_only": True,
 },
 "engines": [{"name":"amsim","path":"sim/amsim","serves_properties":sorted(CLAIMED),"kind_free_text":"deterministic discrete-event simulation of whole Alertmanager instances inside a testing/synctest bubble with simulated receivers, gossip network, disk and scheduler holds; seeded plan generator, content-keyed fault decisions, delta-debugging shrinker, replay files"}],
 "checks": [],
 "not_applicable": [{"property_id":k,"reason":v} for k,v in sorted({**NA, **PENDING}.items())],
 "notes": "bin/check <id> <tier>: builds the worker from /repo's working tree, fans seeds over all cores, minimises and replays every failure twice before reporting it. known_findings.json lists recorded and fixed defects.",
}
for k in sorted(CLAIMED):
    c = CLAIMED[k]
    m["checks"].append({
      "property_id": k,
      "quick_cmd": "bin/check %s quick" % k,
      "thorough_cmd": "bin/check %s thorough" % k,
      "evidence_file": "/verif/evidence/%s.json" % k,
      "replay_cmd_template": "bin/check replay {path}",
      "engine": "amsim",
      "level_claimed": {"category": c["category"], "text": c["text"], "design_ref": "DESIGN.md section " + c["ref"]},
      "level_note": NOTE,
      "technique": c["technique"],
    })
json.dump(m, open(os.path.join(V,"MANIFEST.json"),"w"), indent=1)
print("claimed:", sorted(CLAIMED), "not_applicable:", sorted({**NA, **PENDING}))
