#!/usr/bin/env python3
"""Regenerates /verif/MANIFEST.json from the table below."""
import json, os, subprocess
V = os.path.dirname(os.path.dirname(os.path.abspath(__file__)))

NOTE = ("Trusted base: Go runtime and testing/synctest (virtual clock, quiescence; five runtime files are overlaid so that the order of same-instant timers, select polling, map seeds and sysmon preemption are seeded or off), the harness (plan generator, simulated receiver "
        "world, gossip transport, disk, reference models), one shared clock per run. Sampling, not enumeration, unless stated.")

SIM = "deterministic simulation: whole real app.New instance in a testing/synctest bubble (virtual clock, seeded tie-breaking in the overlaid runtime), simulated receivers/disk, seeded plan generator with fault injection and scheduling holds (named yield sites; one-shot suspensions before critical sections of the lock-instrumented packages), reference-model oracles over the recorded history, delta-debugging shrinker, replay twice before reporting"
CLAIMED = {
 "C01": dict(category="exploration", ref="5 (C01)", technique=SIM + "; oracle O1 (latest delivered notification lists every eligible alert) in clean windows",
   text="Seeded search over routing trees, alert timelines, silences, inhibit rules, time intervals, receiver fault windows (5xx/4xx/hang/reset/slow), valid and rejected reloads and scheduling holds; the oracle asserts, for every alert that the reference models say was eligible for longer than max(group_wait,group_interval)+flush timeout+6s with a healthy integration, that the latest delivered notification for its group lists it as firing. Sampling of a huge space is the honest level; every reported failure is minimised and replayed."),
 "C02": dict(category="exploration", ref="5 (C02)", technique=SIM + "; crafted replicated versions through Silences.Merge; concurrent Mutes calls parked at yield points; brute-force evaluation of Query() as oracle",
   text="At every probe Silencer.Mutes (with marker) for every label set of the run is compared with a direct evaluation of all silences Query() returns, after arbitrary histories of API create/edit/expire, merged replicated versions (extend/shorten/expire/revive/stale/duplicate/new/two OR-ed sets), GC, alert GC and snapshot reload; concurrent probes parked inside Mutes must be regular (per silence) with respect to the store states of their interval; notifications never list an alert silenced during the whole flush window."),
 "C03": dict(category="exploration", ref="5 (C03)", technique=SIM + "; state-based reference: the existential rule evaluated over the alerts of the same GET response",
   text="For every alert returned by every GET /api/v2/alerts probe (after each POST and at random instants) the reported inhibition is compared with the existential rule evaluated over the alerts of the same response (labels, end times), including the two-sided exception and missing equal labels; histories refresh sources with unordered end times, resolve, time out, re-fire, with provider GC and the inhibitor's own cache GC inside the run; notifications are checked against probes that bracket their flush window; right after a reload returns the API is probed again, in half of those runs with the new inhibitor's initial load slowed down."),
 "C04": dict(category="exploration", ref="5 (C04)", technique=SIM + "; per (group, integration) notification sequences over virtual hours to days",
   text="Runs cover 2-30 virtual hours so that several repeat_intervals, nflog GC runs, snapshots, reloads and graceful restarts occur; every notification attempt must be justified against the previous delivered one (new firing alert, new resolved alert with send_resolved, repeat_interval elapsed, or a moment without a firing unsuppressed alert), resolved-only notifications must follow a firing one, and an unchanged healthy group must be re-notified within repeat_interval+group_interval+slack."),
 "C05": dict(category="exploration", ref="5 (C05)", technique=SIM + "; resolves/flaps placed inside in-flight deliveries (slow/hanging receivers, hold before the delete of resolved alerts)",
   text="Checks that a resolution is reported within group_interval+slack when its premises hold, that send_resolved:false never lists resolved alerts, that nothing is listed resolved while it fired during the whole possible flush window (or firing while resolved), that resolved-only first notifications do not occur, and that re-fired alerts are listed again (O1); a resolution stays owed across accepted configuration reloads (targeted reloads shortly after explicit resolves)."),
 "C06": dict(category="exploration", ref="5 (C06)", technique=SIM + "; 2-8 ingestion workers with holds in the group creation loop, maintenance sweep and flush; GET /alerts/groups probes",
   text="Every notification must be one group of one route of the reference router, complete with respect to members eligible during the whole flush window; group keys must be a stable function of (matcher path, group labels); GET /alerts/groups must show the model's partition; new and recreated groups must wait group_wait."),
 "C08": dict(category="exploration", ref="5 (C08)", technique=SIM + "; 1-3 real clustered instances over the simulated network with loss/dup/delay/partitions, crashes with power-loss outcomes, restarts, late joins; union-of-instances oracles",
   text="At least once: every alert an up instance holds and that is eligible must be reported firing by some instance within the C01 bound extended by settle time-out + (n-1) x peer time-out (or have been reported within the last repeat_interval and not resolved since), and explicit resolutions must be reported by some instance; no duplicates when healthy: in fault-free runs of at most two instances the merged notification stream obeys the notify-only-on-change rule. Alerts are posted to every live instance, as the property presupposes."),
 "C09": dict(category="exploration", ref="5 (C09)", technique=SIM + "; 2-4 real instances whose silence broadcasts are recorded and re-delivered with loss/dup/delay/reorder/batching; crafted versions; full-state exchanges",
   text="Per-merge safety (never newer->older, nothing past its retention accepted, newer unexpired delivered version wins, no fabricated content, re-merging known data changes nothing and broadcasts nothing, accepted changes are re-broadcast) on every replica, and convergence after two all-pairs full-state exchanges: every replica holds the newest accepted version of every id still within retention, and its Silencer agrees with the direct evaluation."),
 "C10": dict(category="exploration", ref="5 (C10)", technique=SIM + "; crafted notification-log entries through Log.Merge in independent orders, local Log calls, GC, restarts; reference log stepped alongside",
   text="After every delivery, local Log call (also against an entry stamped in the local future), GC, restart and full-state exchange, Log.Query of every key on every replica is compared with a reference log (newest unexpired timestamp wins, expired never accepted, receiver data unchanged); the broadcast rule (nothing for known/older/expired data, re-gossip of accepted entries) is checked per merge; after two all-pairs exchanges all replicas hold the newest unexpired entry of every key."),
 "C11": dict(category="fault_enumeration", ref="5 (C11)", technique="deterministic simulation with fault enumeration: real instance on a simulated disk (journalled, power-loss model), crash before every file-system operation of maintenance and shutdown snapshots x every power-loss outcome, restart and compare; loader fed every prefix and bit-flip corruptions",
   text="For each generated store content, the snapshot pair (silences, notification log) is crashed before each of its mutating file-system operations (and right after completion) with each power-loss outcome (unsynced data lost, kept, torn); the restarted real instance must start and hold, per store, exactly the last completed or the in-progress snapshot. Snapshot -> load round trip and all prefixes of the snapshot files are checked against the originals. After the comparison the instance runs on, completes a snapshot of its own, is killed and restarted again (second generation: leftovers of the first crash must not leak into later snapshots); after both restarts its mute verdicts are compared with a direct evaluation of the loaded silences. Enumeration over crash points is complete per content; contents are sampled."),
 "C12": dict(category="exploration", ref="5 (C12)", technique=SIM + "; lifecycle state machine stepped with the requests actually sent, compared with GET /silences after every call",
   text="Sequences of create/edit/expire/GC/query over 1-4 silences placed around start, end and end+retention (+-1 ms, +-1 s), with invalid inputs, unknown ids, operator-only matcher edits, oversize replacements and optional count/size limits; ids, times, matchers, comment/creator, state-by-time, once-expired-never-active, presence until end+retention and absence after a GC past it are checked after every call."),
 "C13": dict(category="exploration", ref="5 (C13)", technique=SIM + "; contract model of ingestion (defaulting, overlap merge, visibility) carried as a set of allowed stored versions",
   text="Histories of POST /api/v2/alerts (with/without start/end, overlapping, disjoint, out of order, resolved, re-fired, partly invalid batches) interleaved with provider GC at a per-run interval and GETs; every GET is compared with the set of outcomes the contract allows (three-valued where ranges only touch), plus stability between POSTs: an alert with a future end never vanishes or changes."),
 "C14": dict(category="fault_enumeration", ref="5 (C14)",
   technique="deterministic simulation: whole app in a synctest bubble; complete enumeration of ingestion-worker release orders via content-keyed holds at a yield point, of preemption points at store-lock acquisitions (go/ast-instrumented store), and of bursts that find no live aggregation group",
   text="Every release order of the ingestion workers for bursts of 2 and 3 back-to-back updates (all refresh/resolve/re-fire sequences, 2/3/4/8 workers) is executed against the real app (API -> provider -> dispatcher -> group -> webhook); plus, for bursts of two, preemption of either worker at each of its first six store-lock acquisitions, plus bursts of 2-3 updates of an alert without a live group; sampled beyond (k=4..5, creation inside the burst). The oracle compares the group's copy (GET /alerts/groups updatedAt) and the following notifications with the last accepted submission. Enumeration is the right level: the schedule space at the one place where order can be lost is small and finite."),
 "C15": dict(category="exploration", ref="5 (C15)", technique=SIM + "; the virtual clock is placed on calendar boundaries (DST transitions of 25 IANA zones, month/year ends, 29 February) and a group flushes every 47-127 s for hours to days; sibling routes with identical matcher chains (same group keys) whose groups are collected at different times, attributed by receiver",
   text="Interval specifications generated around a focus instant go through the real config parser; every flush instant of a group that would otherwise always notify is judged by a reference calendar written from the documented field semantics: muted flushes must send nothing, others must notify, and GET /alerts/groups must report exactly the muting interval names of the last flush. A third of the DST runs sit on transitions at the first/last day of a month; a quarter of the runs have a second group that is destroyed and re-created while the maintenance sweep is suspended (its mute marker must survive). Only instants the simulated clock visits are judged (the all-instants sweep is a pure-function enumeration outside this technique)."),
 "C18": dict(category="exploration", ref="5 (C18)", technique=SIM + "; admission histories with unordered end times x provider GC instants; blocking response writers for the GET-concurrency probe",
   text="Per-name limit: counts of unexpired alerts per name after every POST, re-sends of admitted alerts, admission while room, refusal counter; silence count/size limits with rejected calls leaving state untouched; GET concurrency: `limit` GETs parked in flight, further GETs 503, POST unaffected, counter moved."),
 "C19": dict(category="exploration", ref="5 (C19)", technique=SIM + "; 2-4 real clustered instances (real cluster.Peer + memberlist) over the simulated network with drop/dup/delay/partitions, late joins, a foreign memberlist node injecting garbage; bounded-liveness oracle over recorded per-instance views",
   text="Bounded liveness after faults stop: every silence/notification-log update accepted anywhere at least 12 push/pull intervals + 40 s ago is held by every live instance in its newest version; oversized updates (reliable channel) and small updates in two-instance clusters arrive within 10 s in a fault-free phase; a late joiner holds its seed peer's state 8 s after joining; valid state offered by a foreign peer next to malformed/unknown parts is merged, garbage corrupts nothing. Relay phase (three instances, loss-free network, one link cut, push/pull minutes away): small silence updates and every notification-log entry must cross the cut through the common neighbour's re-gossip within 10 s, in the version the origin holds. Gossip itself is probabilistic, so tighter bounds are asserted only where delivery is certain."),
 "C20": dict(category="exploration", ref="5 (C20)", technique=SIM + "; per-attempt outcome windows, flush reconstruction from the backoff schedule, notification-log dumps, payload laws",
   text="Every run injects receiver faults; oracles: recoverable failures (5xx, reset, and with a per-attempt webhook timeout also hanging or too slow receivers) are retried within the backoff cap unless the flush deadline intervenes, unrecoverable ones are not retried before the next tick, failed flushes with something new to say are attempted again, resolved alerts survive a failed flush, log entries with firing alerts have a preceding 2xx, siblings of a failing integration still obey dedup and O1, payload status/common labels/annotations/max_alerts/truncatedAlerts laws hold on every request."),
}

NA = {
 "C07": "pure function of (routing tree, label set): no schedule, clock, fault or interleaving for a simulator to decide; the reference router inside the simulator reports misrouting under C01/C06/C13",
 "C16": "pure functions of strings (matcher parse/print/match): nothing to simulate",
 "C17": "pure function of configuration bytes; the one fault clause (rejected reload keeps the running configuration) is exercised as a fault in C01 runs",
}
PENDING = {}
for k in ["C01","C02","C03","C04","C05","C06","C08","C09","C10","C11","C12","C13","C15","C18","C19","C20"]:
    if k not in CLAIMED:
        PENDING[k] = "check not built yet in this session (planned, see DESIGN.md section 5); not claimed until it is"

hooks = subprocess.run(["git","-C","/repo","log","--format=%h %s","--grep=^verif:"],capture_output=True,text=True).stdout.strip().splitlines()
m = {
 "version": 1,
 "setup_cmd": "bin/setup.sh",
 "hooks": {
   "guard": "verif (Go build tag)",
   "enable": "go test -c -tags verif -overlay <generated> ./amsim in /verif/sim (module replaces github.com/prometheus/alertmanager => /repo); see bin/build.sh",
   "baseline_off_cmd": "cd /repo && go test -mod=mod -json -vet=off -count=1 -timeout 25m ./...",
   "source_commits": [h.split()[0] for h in hooks],
   "add_only": True,
 },
 "engines": [{"name":"amsim","path":"sim/amsim","serves_properties":sorted(CLAIMED),"kind_free_text":"deterministic discrete-event simulation of whole Alertmanager instances inside a testing/synctest bubble with simulated receivers, gossip network, disk and scheduler holds; seeded plan generator, content-keyed fault decisions, delta-debugging shrinker, replay files"}],
 "checks": [],
 "not_applicable": [{"property_id":k,"reason":v} for k,v in sorted({**NA, **PENDING}.items())],
 "notes": "bin/check <id> <tier>: builds the worker from /repo's working tree, fans seeds over all cores, minimises and replays every failure twice before reporting it. known_findings.json lists recorded and fixed defects.",
}
for k in sorted(CLAIMED):
    c = CLAIMED[k]
    m["checks"].append({
      "property_id": k,
      "quick_cmd": "bin/check %s quick" % k,
      "thorough_cmd": "bin/check %s thorough" % k,
      "evidence_file": "/verif/evidence/%s.json" % k,
      "replay_cmd_template": "bin/check replay {path}",
      "engine": "amsim",
      "level_claimed": {"category": c["category"], "text": c["text"], "design_ref": "DESIGN.md section " + c["ref"]},
      "level_note": NOTE,
      "technique": c["technique"],
    })
json.dump(m, open(os.path.join(V,"MANIFEST.json"),"w"), indent=1)
print("claimed:", sorted(CLAIMED), "not_applicable:", sorted({**NA, **PENDING}))
