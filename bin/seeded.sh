#!/bin/bash
# seeded.sh <seeded-id> <dir with patch.diff + demo test + demo.txt> <property> [check args...]
# Confirms a seeded change in a scratch worktree (demo passes without, fails with),
# then runs the property's quick check against the changed tree.
set -uo pipefail
ID=$1; SRC=$2; PROP=$3
V=$(cd "$(dirname "$0")/.." && pwd)
export PATH=/root/go/pkg/mod/golang.org/toolchain@v0.0.1-go1.25.0.linux-amd64/bin:$PATH GOTOOLCHAIN=local GOFLAGS=-mod=mod GOPROXY=off GOSUMDB=off
WT=/tmp/sv-$ID
git -C /repo worktree remove --force "$WT" 2>/dev/null
git -C /repo worktree add -q "$WT" HEAD || exit 2
trap 'git -C /repo worktree remove --force "$WT" 2>/dev/null' EXIT
DEMO=$(ls "$SRC"/*_test.go | head -1)
PKG=$(grep -m1 -oE '(^|[ /])(dispatch|notify/webhook|notify|nflog|silence|inhibit|store|provider/mem|api/v2|cluster|template|limit|alert|timeinterval|config)( |/|$)' "$SRC/demo.txt" | head -1 | tr -d ' ' | sed 's#/$##')
[ -n "${SEEDED_PKG:-}" ] && PKG=$SEEDED_PKG
TESTNAME=$(grep -oE 'func (Test[A-Za-z0-9_]+)' "$DEMO" | head -1 | awk '{print $2}')
echo "== $ID: package $PKG test $TESTNAME"
cp "$DEMO" "$WT/$PKG/"
( cd "$WT" && go test -vet=off -count=1 -run "^$TESTNAME\$" "./$PKG/" ) > /tmp/sv-$ID.clean.log 2>&1; CLEAN=$?
( cd "$WT" && git apply "$SRC/patch.diff" ) || { echo "patch does not apply"; exit 2; }
( cd "$WT" && go build ./... 2>&1 | grep -v "^#\|ui/\|pattern app/dist" | head -5 )
( cd "$WT" && go test -vet=off -count=1 -run "^$TESTNAME\$" "./$PKG/" ) > /tmp/sv-$ID.mut.log 2>&1; MUT=$?
echo "demo on clean tree: exit $CLEAN; with the change: exit $MUT"
rm -f "$WT/$PKG/$(basename "$DEMO")"
# the pinned suite with the change applied: every test of BASELINE.stable_pass must still pass
SUITE=skipped
if [ -z "${SEEDED_SKIP_SUITE:-}" ]; then
  ( cd "$WT" && go test -mod=mod -json -vet=off -count=1 -timeout 25m ./... ) > /tmp/sv-$ID.suite.json 2>/dev/null
  SUITE=$(python3 - /tmp/sv-$ID.suite.json <<'PY'
import json,sys
sp=set(json.load(open('/root/.vp/BASELINE.json'))['stable_pass'])
ok=set()
for l in open(sys.argv[1]):
    try: d=json.loads(l)
    except Exception: continue
    if d.get('Test') and d.get('Action')=='pass': ok.add(d['Package']+'::'+d['Test'])
miss=sorted(sp-ok)
print("%d/%d%s"%(len(sp&ok),len(sp),(" missing: "+", ".join(miss[:5])) if miss else ""))
PY
)
  rm -f /tmp/sv-$ID.suite.json
fi
echo "pinned suite with the change: $SUITE"
export SEEDED_SUITE="$SUITE"
shift 3
OUT=$(cd "$V" && VERIF_REPO=$WT VERIF_EVIDENCE_DIR=/tmp/sv-$ID-ev "$@" bin/check "$PROP" quick 2>&1)
RC=$?
echo "$OUT" | grep -E "VIOLATION|KNOWN-FINDING|runs in|could not" | cut -c1-300
echo "$OUT" > /tmp/sv-$ID.check.log
echo "check exit: $RC"
mkdir -p "$V/seeded/$ID"
if [ "$(cd "$SRC" && pwd)" != "$V/seeded/$ID" ]; then
cp "$SRC/patch.diff" "$V/seeded/$ID/patch.diff"
cp "$DEMO" "$V/seeded/$ID/"
[ -f "$SRC/notes.md" ] && cp "$SRC/notes.md" "$V/seeded/$ID/notes.md"
[ -f "$SRC/demo.txt" ] && cp "$SRC/demo.txt" "$V/seeded/$ID/demo.txt"
fi
python3 - "$ID" "$PROP" "$CLEAN" "$MUT" "$RC" "$PKG" "$TESTNAME" <<'PY'
import json,sys,os,re,subprocess
id,prop,clean,mut,rc,pkg,test=sys.argv[1:8]
d='/verif/seeded/%s'%id
p=d+'/meta.json'
old=json.load(open(p)) if os.path.exists(p) else {}
needs=""
try:
    notes=open(d+'/notes.md').read()
    m=re.search(r'(?im)^#+\s*(what is needed[^\n]*|needs[^\n]*|what it needs[^\n]*)\n(.*?)(?=^#+\s|\Z)', notes, re.S)
    if m: needs=" ".join(m.group(2).split())[:900]
    title=notes.strip().splitlines()[0].lstrip('# ').strip()
except Exception:
    title=""
log=open('/tmp/sv-%s.check.log'%id).read() if os.path.exists('/tmp/sv-%s.check.log'%id) else ""
sigs=re.findall(r'(?m)^signature (\S+): (\d+) runs', log)
runs=re.search(r'(\d+) runs in ([0-9.]+)s', log)
head=subprocess.run(['git','-C','/repo','rev-parse','--short','HEAD'],capture_output=True,text=True).stdout.strip()
old.update({"id":id,"breaks_property":prop,"what":title,"needs_to_manifest":needs,
 "verified_against_repo_commit":head,
 "ran":[
   "go test -vet=off -count=1 -run '^%s$' ./%s/ in a scratch worktree of /repo: exit %s without the change, exit %s with it"%(test,pkg,clean,mut),
   "go build ./... with the change: ok",
   "pinned suite (go test -json -vet=off -count=1 ./...) with the change, tests of BASELINE.stable_pass passing: %s"%(os.environ.get("SEEDED_SUITE","skipped") if os.environ.get("SEEDED_SUITE","skipped")!="skipped" else old.get("suite_stable_pass","skipped")),
   "VERIF_REPO=<scratch worktree with patch.diff applied> bin/check %s quick: exit %s%s"%(prop,rc,(" (%s runs in %s s)"%runs.groups()) if runs else ""),
 ],
 "demo_package":pkg,"demo_test":test,
 "demo_exit_clean_tree":int(clean),"demo_exit_with_change":int(mut),
 "check_cmd":"VERIF_REPO=<scratch worktree with patch.diff applied> bin/check %s quick"%prop,"check_exit":int(rc),
 "check_signatures":[{"signature":a,"runs":int(b)} for a,b in sigs],
 "suite_stable_pass": (os.environ.get("SEEDED_SUITE","skipped") if os.environ.get("SEEDED_SUITE","skipped")!="skipped" else old.get("suite_stable_pass","skipped")),
 "detected": int(rc)==1})
json.dump(old,open(p,'w'),indent=1)
PY
rm -f /tmp/sv-$ID.check.log /tmp/sv-$ID.clean.log /tmp/sv-$ID.mut.log; rm -rf /tmp/sv-$ID-ev
