#!/bin/bash
# seeded.sh <seeded-id> <dir with patch.diff + demo test + demo.txt> <property> [check args...]
# Confirms a seeded change in a scratch worktree (demo passes without, fails with),
# then runs the property's quick check against the changed tree.
set -uo pipefail
ID=$1; SRC=$2; PROP=$3
V=$(cd "$(dirname "$0")/.." && pwd)
export PATH=/root/go/pkg/mod/golang.org/toolchain@v0.0.1-go1.25.0.linux-amd64/bin:$PATH GOTOOLCHAIN=local GOFLAGS=-mod=mod GOPROXY=off GOSUMDB=off
WT=/tmp/sv-$ID
git -C /repo worktree remove --force "$WT" 2>/dev/null
git -C /repo worktree add -q "$WT" HEAD || exit 2
trap 'git -C /repo worktree remove --force "$WT" 2>/dev/null' EXIT
DEMO=$(ls "$SRC"/*_test.go | head -1)
PKG=$(grep -m1 -oE '(^|[ /])(dispatch|notify/webhook|notify|nflog|silence|inhibit|store|provider/mem|api/v2|cluster|template|limit|alert|timeinterval|config)( |/|$)' "$SRC/demo.txt" | head -1 | tr -d ' ' | sed 's#/$##')
[ -n "${SEEDED_PKG:-}" ] && PKG=$SEEDED_PKG
TESTNAME=$(grep -oE 'func (Test[A-Za-z0-9_]+)' "$DEMO" | head -1 | awk '{print $2}')
echo "== $ID: package $PKG test $TESTNAME"
cp "$DEMO" "$WT/$PKG/"
( cd "$WT" && go test -vet=off -count=1 -run "^$TESTNAME\$" "./$PKG/" ) > /tmp/sv-$ID.clean.log 2>&1; CLEAN=$?
( cd "$WT" && git apply "$SRC/patch.diff" ) || { echo "patch does not apply"; exit 2; }
( cd "$WT" && go build ./... 2>&1 | grep -v "^#\|ui/\|pattern app/dist" | head -5 )
( cd "$WT" && go test -vet=off -count=1 -run "^$TESTNAME\$" "./$PKG/" ) > /tmp/sv-$ID.mut.log 2>&1; MUT=$?
echo "demo on clean tree: exit $CLEAN; with the change: exit $MUT"
rm -f "$WT/$PKG/$(basename "$DEMO")"
shift 3
OUT=$(cd "$V" && VERIF_REPO=$WT VERIF_EVIDENCE_DIR=/tmp/sv-$ID-ev "$@" bin/check "$PROP" quick 2>&1)
RC=$?
echo "$OUT" | grep -E "VIOLATION|KNOWN-FINDING|runs in|could not" | cut -c1-300
echo "check exit: $RC"
mkdir -p "$V/seeded/$ID"
cp "$SRC/patch.diff" "$V/seeded/$ID/patch.diff"
cp "$DEMO" "$V/seeded/$ID/"
[ -f "$SRC/notes.md" ] && cp "$SRC/notes.md" "$V/seeded/$ID/notes.md"
[ -f "$SRC/demo.txt" ] && cp "$SRC/demo.txt" "$V/seeded/$ID/demo.txt"
python3 - "$ID" "$PROP" "$CLEAN" "$MUT" "$RC" "$PKG" "$TESTNAME" <<'PY'
import json,sys,os,re
id,prop,clean,mut,rc,pkg,test=sys.argv[1:8]
out=os.popen("true").read()
p='/verif/seeded/%s/meta.json'%id
old=json.load(open(p)) if os.path.exists(p) else {}
old.update({"id":id,"breaks_property":prop,"demo_package":pkg,"demo_test":test,
 "demo_exit_clean_tree":int(clean),"demo_exit_with_change":int(mut),
 "check_cmd":"VERIF_REPO=<scratch worktree with patch.diff applied> bin/check %s quick"%prop,"check_exit":int(rc),
 "detected": int(rc)==1})
json.dump(old,open(p,'w'),indent=1)
PY
